// Package rt is the in-process simulation runtime: yield points, goroutine
// naming, the seeded scheduler, exit/crash flags and knobs.  Everything here
// is inert (one atomic load) unless a simulation is active.
package rt

import (
	"fmt"
	"hash/fnv"
	"os"
	"reflect"
	"runtime/debug"
	"sort"
	"strconv"
	"strings"
	"sync"
	"sync/atomic"
	"time"
	_ "unsafe"
)

//go:linkname verifGoid runtime.verifGoid
func verifGoid() uint64

//go:linkname verifSetSelectRand runtime.verifSetSelectRand
func verifSetSelectRand(f func(goid uint64, n uint32) uint32)

type ginfo struct {
	name   string
	locks  int
	spawns map[string]int
	dead   bool
	id     int      // dense index, in order of first appearance (deterministic: execution is serialised)
	vc     []uint64 // vector clock, see hbSync
}

var nextGid int

func newG(name string) *ginfo {
	g := &ginfo{name: name, spawns: map[string]int{}, id: nextGid}
	nextGid++
	g.vc = make([]uint64, g.id+1)
	g.vc[g.id] = 1
	return g
}

type parked struct {
	g    *ginfo
	site string
	wake chan struct{}
}

// SpawnTok carries the deterministic name from the parent to the child.
type SpawnTok struct{ name string }

var (
	active atomic.Bool
	mu     sync.Mutex
	gs     = map[uint64]*ginfo{}
	parkL  []*parked
	ticks  atomic.Int64
	anon   int

	maxTicks int64

	// flags set from SUT goroutines, read by the scheduler at quiescence
	finished  atomic.Bool
	exited    atomic.Bool
	crashed   atomic.Bool
	livelock  atomic.Bool
	panicked  atomic.Bool
	exitCode  int
	exitStack string
	crashWhy  string
	panicText string
)

func cur() *ginfo {
	id := verifGoid()
	mu.Lock()
	g := gs[id]
	if g == nil {
		anon++
		g = newG(fmt.Sprintf("anon%d", anon))
		gs[id] = g
	}
	mu.Unlock()
	return g
}

// CurName returns the simulated name of the calling goroutine.
func CurName() string {
	if !active.Load() {
		return ""
	}
	return cur().name
}

func register(name string) {
	id := verifGoid()
	mu.Lock()
	gs[id] = newG(name)
	mu.Unlock()
}

// Active reports whether a simulation is running.
func Active() bool { return active.Load() }

// Tick is inserted at the head of every loop body: deterministic livelock budget.
func Tick() {
	if !active.Load() {
		return
	}
	n := ticks.Add(1)
	if maxTicks > 0 && n > maxTicks+2*dynSteps.Load() {
		livelock.Store(true)
		ParkForever()
	}
	if preemptEvery > 0 {
		// Preemption point: with strict serialisation the global tick sequence is a function of the run, so this
		// decision is too.  A goroutine parked here is in the middle of a function, between two synchronisation
		// operations - the interleavings real parallel execution (or Go's asynchronous preemption) allows and
		// channel-granularity scheduling never produces: unsynchronised shared state becomes observable.
		z := uint64(n)*0x9e3779b97f4a7c15 ^ preemptSeed
		z = (z ^ (z >> 30)) * 0xbf58476d1ce4e5b9
		z = (z ^ (z >> 27)) * 0x94d049bb133111eb
		z ^= z >> 31
		if z%preemptEvery == 0 {
			Yield("preempt")
		}
	}
}

var (
	preemptEvery uint64
	preemptSeed  uint64
)

func Locked() {
	if active.Load() {
		g := cur()
		g.locks++
		hbSync(g)
	}
}

func Unlocking() {
	if active.Load() {
		g := cur()
		hbSync(g)
		g.locks--
	}
}

// Happens-before, over-approximated. Every synchronisation operation the instrumenter marks (channel send, receive,
// select, close, range over a channel, mutex lock/unlock, go statement, goroutine start and end) is treated as a
// synchronisation with *every* other goroutine's earlier synchronisation operations: the caller publishes its vector
// clock to one shared clock, takes the join, and starts a new epoch. Real happens-before is a subset of this order (a
// receive is ordered after the matching send only, not after all earlier channel operations of all goroutines), so
// two accesses this order leaves unordered are unordered in the Go memory model too - as far as the marked
// operations go (sync.WaitGroup, sync.Cond, sync.Once and atomics are not marked; goroutines that have ended are
// ignored instead). Preemption points are not synchronisation and do not count.
var worldVC []uint64

// HBSync brackets statements that call sync.Once, sync.WaitGroup, sync.Cond or atomic operations (see the instrumenter).
func HBSync() {
	if active.Load() {
		hbSync(cur())
	}
}

func hbSync(g *ginfo) {
	mu.Lock()
	n := len(worldVC)
	if len(g.vc) > n {
		n = len(g.vc)
	}
	for len(worldVC) < n {
		worldVC = append(worldVC, 0)
	}
	for len(g.vc) < n {
		g.vc = append(g.vc, 0)
	}
	for i := 0; i < n; i++ {
		if g.vc[i] > worldVC[i] {
			worldVC[i] = g.vc[i]
		} else {
			g.vc[i] = worldVC[i]
		}
	}
	g.vc[g.id]++
	mu.Unlock()
}

// Yield parks the caller until the scheduler releases it.
func Yield(site string) {
	if !active.Load() {
		return
	}
	g := cur()
	if site != "preempt" {
		hbSync(g)
	}
	if g.locks > 0 {
		return
	}
	p := &parked{g: g, site: site, wake: make(chan struct{})}
	mu.Lock()
	parkL = append(parkL, p)
	mu.Unlock()
	<-p.wake
}

func BeforeGo(site string) *SpawnTok {
	if !active.Load() {
		return nil
	}
	spawned.Store(true)
	g := cur()
	k := g.spawns[site]
	g.spawns[site] = k + 1
	tok := &SpawnTok{name: fmt.Sprintf("%s/%s#%d", g.name, site, k)}
	Yield("go@" + site)
	return tok
}

func GoStart(tok *SpawnTok) {
	if tok == nil || !active.Load() {
		return
	}
	register(tok.name)
	Yield("start")
}

// GoEnd is deferred in the wrapper of every spawned goroutine.
func GoEnd() {
	if !active.Load() {
		return
	}
	g := cur()
	hbSync(g)
	mu.Lock()
	g.dead = true
	mu.Unlock()
}

// ---------------------------------------------------------------- shared-map discipline
//
// The Go runtime aborts the process ("fatal error: concurrent map writes" / "concurrent map read and map write") when
// two goroutines are inside the map implementation at once. With execution serialised that can never happen in a
// simulated run, so the condition that makes it possible is checked instead, on every access the instrumenter sees to
// a package-level map: two goroutines which are alive at the same time access the same map object, at least one of
// them writes, at least one of the two accesses is made without any mutex held, and the earlier access does not
// happen-before the later one (hbSync above). (Accesses made before the first goroutine is spawned - initialisation -
// are ignored; a goroutine that has ended hands its maps over.)

// mapRec: what one goroutine has done to one map so far, by kind of access
// (index: 0 read under a mutex, 1 read without, 2 write under a mutex, 3 write without).
type mapRec struct {
	g     *ginfo
	seen  [4]bool
	epoch [4]uint64 // the goroutine's own clock component at its latest access of this kind
	site  [4]string
}

var (
	spawned   atomic.Bool
	mapAccs   = map[uintptr][]*mapRec{}
	mapRaces  []string
	mapChecks int
	mapRaceOf = map[string]bool{}
)

func MapAccess(m interface{}, name string, write bool, site string) {
	if !active.Load() || !spawned.Load() {
		return
	}
	v := reflect.ValueOf(m)
	if v.Kind() != reflect.Map || v.IsNil() {
		return
	}
	p := v.Pointer()
	g := cur()
	locked := g.locks > 0
	mu.Lock()
	defer mu.Unlock()
	mapChecks++
	var mine *mapRec
	kind := 0
	if !locked {
		kind |= 1
	}
	if write {
		kind |= 2
	}
	how := [4]string{"reads it under a mutex", "reads it without a mutex", "writes it under a mutex", "writes it without a mutex"}
	for _, r := range mapAccs[p] {
		if r.g == g {
			mine = r
			continue
		}
		if r.g.dead || mapRaceOf[name] {
			continue
		}
		// two accesses conflict when at least one writes and not both are under a mutex
		for k := 0; k < 4; k++ {
			if !r.seen[k] {
				continue
			}
			otherWrite, otherLocked := k&2 != 0, k&1 == 0
			ordered := r.g.id < len(g.vc) && r.epoch[k] <= g.vc[r.g.id] // the other access happens-before this one
			if (write || otherWrite) && !(locked && otherLocked) && !ordered {
				mapRaceOf[name] = true
				mapRaces = append(mapRaces, fmt.Sprintf("%s: %s %s at %s while %s, still running, %s at %s",
					name, g.name, how[kind], site, r.g.name, how[k], r.site[k]))
				break
			}
		}
	}
	if mine == nil {
		mine = &mapRec{g: g}
		mapAccs[p] = append(mapAccs[p], mine)
	}
	mine.seen[kind] = true
	mine.epoch[kind] = g.vc[g.id]
	mine.site[kind] = site
}

// GoPanic is called from the recover() wrapper the instrumenter puts around
// every spawned goroutine body (and the worker around main).
func GoPanic(r interface{}) {
	if !active.Load() {
		panic(r)
	}
	if !panicked.Swap(true) {
		panicText = fmt.Sprintf("panic: %v\n%s", r, debug.Stack())
	}
	ParkForever()
}

// ParkForever blocks the caller durably.
func ParkForever() {
	c := make(chan struct{})
	<-c
}

// Exit is the os.Exit hook.
func Exit(code int) {
	if !active.Load() {
		return
	}
	if !exited.Swap(true) {
		exitCode = code
		exitStack = string(debug.Stack())
	}
	ParkForever()
}

// Crash stops the simulated process at this instant (kill -9 semantics).
func Crash(why string) {
	if !active.Load() {
		return
	}
	if !crashed.Swap(true) {
		crashWhy = why
	}
	ParkForever()
}

func Ticks() int64 { return ticks.Load() }

// AddStepBudget is called by the seam for every successful read of n input bytes: the step budget of a run is
// MaxSteps + stepsPerInputByte * bytes consumed, so that a long input (under batch size 1 and 1-byte reads) is not
// mistaken for a livelock, while a loop that makes no progress through its finite input still is - also when it
// keeps producing output.
const stepsPerInputByte = 1000

var dynSteps atomic.Int64

func AddStepBudget(n int) {
	if n > 0 && active.Load() {
		dynSteps.Add(int64(n) * stepsPerInputByte)
	}
}

// Knob returns an overridden tuning value (env VERIF_KNOB_<name>) or the default.
func Knob(name string, def int) int {
	if v := os.Getenv("VERIF_KNOB_" + name); v != "" {
		if n, err := strconv.Atoi(v); err == nil && n > 0 {
			return n
		}
	}
	return def
}

// ---------------------------------------------------------------- scheduler

type Config struct {
	Policy     string  `json:"policy"` // random | rtb | rr | pct | first
	Seed       int64   `json:"seed"`
	Starve     string  `json:"starve"`      // substring list (|-separated) on goroutine name -> lowest priority
	Favor      string  `json:"favor"`       // same -> highest priority
	SiteAvoid  string  `json:"site_avoid"`  // on site
	SiteFavor  string  `json:"site_favor"`  // on site
	Eps        float64 `json:"eps"`         // probability of ignoring priorities for one step
	PCTDepth   int     `json:"pct_depth"`   // number of priority change points
	PCTHorizon int     `json:"pct_horizon"` // steps over which change points are spread
	SelectMode string  `json:"select_mode"` // random | first | last
	Choices    []int   `json:"choices"`     // explicit replay; overrides policy while it lasts
	Replay     bool    `json:"replay"`      // choices exhausted -> 0
	MaxSteps   int     `json:"max_steps"`
	MaxTicks   int64   `json:"max_ticks"`
	CrashStep  int     `json:"crash_step"`
	Preempt    int     `json:"preempt"` // > 0: park at loop heads, on average once every Preempt loop iterations (seeded)
	// TimersFirst: whenever nothing is runnable, simulated time passes (every pending timer of the system under test
	// fires) before the outside world is consulted (next stdin arrival, progress of real children): the environment is
	// slower than any timeout. Otherwise the clock only moves when the run would be declared deadlocked.
	TimersFirst bool `json:"timers_first"`
	WantTrace  bool    `json:"want_trace"`
	WantChoice bool    `json:"want_choices"`
}

type Outcome struct {
	Status      string         `json:"status"` // returned | exit | crash | deadlock | livelock | panic
	ExitCode    int            `json:"exit_code"`
	ExitStack   string         `json:"exit_stack,omitempty"`
	CrashWhy    string         `json:"crash_why,omitempty"`
	PanicText   string         `json:"panic_text,omitempty"`
	Steps       int            `json:"steps"`
	Ticks       int64          `json:"ticks"`
	Branching   int            `json:"branching"` // steps with >= 2 candidates
	SelectN     int            `json:"selects"`   // multi-way select draws
	TraceHash   string         `json:"trace_hash"`
	States      int            `json:"abstract_states"`
	StateHashes []uint64       `json:"state_hashes,omitempty"`
	Goroutines  []string       `json:"goroutines"`
	Sites       map[string]int `json:"sites"`
	Trace       []string       `json:"trace,omitempty"`
	Choices     []int          `json:"choices,omitempty"`
	Blocked     []string       `json:"blocked,omitempty"` // at deadlock: names seen but not finished
	Idle        int            `json:"idle_events"`
	MapRaces    []string       `json:"map_races,omitempty"` // shared-map discipline violations (see MapAccess)
	ClockJumps  int            `json:"clock_jumps,omitempty"` // times simulated time was advanced and a timer of the system under test fired
	MapChecks   int            `json:"map_checks,omitempty"` // accesses to package-level maps examined
	MapShared   int            `json:"map_shared,omitempty"` // maps touched by two or more goroutines after start-up
}

// idle handlers, tried in order when nothing is parked
var idleHandlers []func() bool

func OnIdle(f func() bool) { idleHandlers = append(idleHandlers, f) }

type lcg struct{ s uint64 }

func (r *lcg) next() uint64 {
	// splitmix64
	r.s += 0x9e3779b97f4a7c15
	z := r.s
	z = (z ^ (z >> 30)) * 0xbf58476d1ce4e5b9
	z = (z ^ (z >> 27)) * 0x94d049bb133111eb
	return z ^ (z >> 31)
}
func (r *lcg) intn(n int) int {
	if n <= 1 {
		return 0
	}
	return int(r.next() % uint64(n))
}
func (r *lcg) float() float64 { return float64(r.next()>>11) / float64(1<<53) }

func matchAny(pat, s string) bool {
	if pat == "" {
		return false
	}
	for _, p := range strings.Split(pat, "|") {
		if p == "" {
			continue
		}
		if strings.HasPrefix(p, "=") {
			if s == p[1:] {
				return true
			}
		} else if strings.Contains(s, p) {
			return true
		}
	}
	return false
}

// extra trace lines from the seam (fs ops, faults); hashed with the schedule
var traceMu sync.Mutex
var extraTrace []string

func TraceNote(s string) {
	if !active.Load() {
		return
	}
	traceMu.Lock()
	extraTrace = append(extraTrace, s)
	traceMu.Unlock()
}

// Run is called on the bubble root goroutine. wait is synctest.Wait.
func Run(cfg Config, wait func(), sut func()) *Outcome {
	out := &Outcome{Sites: map[string]int{}}
	rng := &lcg{s: uint64(cfg.Seed)*0x9e3779b97f4a7c15 + 12345}
	if cfg.MaxSteps <= 0 {
		cfg.MaxSteps = 2000000
	}
	maxTicks = cfg.MaxTicks
	if cfg.Preempt > 0 {
		preemptEvery = uint64(cfg.Preempt)
		preemptSeed = uint64(cfg.Seed)*0xd1342543de82ef95 + 0x2545f4914f6cdd1d
	}
	th := fnv.New64a()
	states := map[uint64]struct{}{}
	choicePos := 0
	nextChoice := func(n int, policy func() int) int {
		if n <= 1 {
			return 0
		}
		var k int
		if choicePos < len(cfg.Choices) {
			k = cfg.Choices[choicePos]
			if k < 0 || k >= n {
				k = 0
			}
		} else if cfg.Replay {
			k = 0
		} else {
			k = policy()
		}
		choicePos++
		if cfg.WantChoice {
			out.Choices = append(out.Choices, k)
		}
		return k
	}
	note := func(s string) {
		th.Write([]byte(s))
		th.Write([]byte{'\n'})
		if cfg.WantTrace {
			out.Trace = append(out.Trace, s)
		}
	}
	verifSetSelectRand(func(goid uint64, n uint32) uint32 {
		mu.Lock()
		g := gs[goid]
		mu.Unlock()
		if g == nil || !active.Load() || n <= 1 {
			return 0
		}
		r := nextChoice(int(n), func() int {
			switch cfg.SelectMode {
			case "first":
				return int(n) - 1
			case "last":
				return 0
			}
			return rng.intn(int(n))
		})
		out.SelectN++
		note(fmt.Sprintf("select %s n=%d r=%d", g.name, n, r))
		return uint32(r)
	})
	active.Store(true)
	go func() {
		register("main")
		defer func() {
			if r := recover(); r != nil {
				GoPanic(r)
			}
		}()
		Yield("start")
		sut()
		finished.Store(true)
	}()

	// pct state
	prio := map[string]float64{}
	var changeAt map[int]bool
	if cfg.Policy == "pct" {
		changeAt = map[int]bool{}
		h := cfg.PCTHorizon
		if h <= 0 {
			h = 400
		}
		for i := 0; i < cfg.PCTDepth; i++ {
			changeAt[1+rng.intn(h)] = true
		}
	}
	last := ""
	lastSite := map[string]string{}
	seen := map[string]bool{}
	lowCounter := 0.0

	for {
		wait()
		// drain seam notes in order
		traceMu.Lock()
		for _, s := range extraTrace {
			note(s)
		}
		extraTrace = extraTrace[:0]
		traceMu.Unlock()
		if panicked.Load() {
			out.Status = "panic"
			break
		}
		if exited.Load() {
			out.Status = "exit"
			break
		}
		if crashed.Load() {
			out.Status = "crash"
			break
		}
		if livelock.Load() {
			out.Status = "livelock"
			break
		}
		if finished.Load() {
			out.Status = "returned"
			break
		}
		mu.Lock()
		cands := parkL
		parkL = nil
		mu.Unlock()
		if len(cands) == 0 {
			// Discrete-event time. Everything is durably blocked, so a sleep of the scheduler's own goroutine lets the
			// bubble's clock jump: pending timers of the system under test fire in order, each woken goroutine runs up to
			// its next yield point. It reports whether anything woke.
			advanceClock := func() bool {
				time.Sleep(time.Hour)
				wait()
				mu.Lock()
				n := len(parkL)
				mu.Unlock()
				return n > 0 || panicked.Load() || exited.Load() || crashed.Load() || livelock.Load() || finished.Load()
			}
			if cfg.TimersFirst && advanceClock() {
				out.ClockJumps++
				note("clock")
				continue
			}
			handled := false
			for _, h := range idleHandlers {
				if h() {
					handled = true
					break
				}
			}
			if handled {
				out.Idle++
				continue
			}
			if !cfg.TimersFirst && advanceClock() {
				out.ClockJumps++
				note("clock")
				continue
			}
			out.Status = "deadlock"
			break
		}
		sort.Slice(cands, func(i, j int) bool { return cands[i].g.name < cands[j].g.name })
		// abstract state
		sh := fnv.New64a()
		for _, c := range cands {
			sh.Write([]byte(c.g.name))
			sh.Write([]byte{'@'})
			sh.Write([]byte(c.site))
			sh.Write([]byte{';'})
			if !seen[c.g.name] {
				seen[c.g.name] = true
				out.Goroutines = append(out.Goroutines, c.g.name)
			}
		}
		states[sh.Sum64()] = struct{}{}
		if len(cands) > 1 {
			out.Branching++
		}
		k := nextChoice(len(cands), func() int {
			// priority classes
			idx := make([]int, 0, len(cands))
			if cfg.Eps > 0 && rng.float() < cfg.Eps {
				for i := range cands {
					idx = append(idx, i)
				}
			} else {
				best := -1
				for i, c := range cands {
					cl := 1
					if matchAny(cfg.Favor, c.g.name) || matchAny(cfg.SiteFavor, c.site) {
						cl = 2
					} else if matchAny(cfg.Starve, c.g.name) || matchAny(cfg.SiteAvoid, c.site) {
						cl = 0
					}
					if cl > best {
						best = cl
						idx = idx[:0]
					}
					if cl == best {
						idx = append(idx, i)
					}
				}
			}
			switch cfg.Policy {
			case "first":
				return idx[0]
			case "rtb":
				for _, i := range idx {
					if cands[i].g.name == last {
						return i
					}
				}
				return idx[rng.intn(len(idx))]
			case "rr":
				for _, i := range idx {
					if cands[i].g.name > last {
						return i
					}
				}
				return idx[0]
			case "pct":
				bi, bp := -1, -1.0
				for _, i := range idx {
					nm := cands[i].g.name
					p, ok := prio[nm]
					if !ok {
						p = 1 + rng.float()
						prio[nm] = p
					}
					if p > bp {
						bi, bp = i, p
					}
				}
				return bi
			}
			return idx[rng.intn(len(idx))]
		})
		p := cands[k]
		if len(cands) > 1 {
			mu.Lock()
			for i, c := range cands {
				if i != k {
					parkL = append(parkL, c)
				}
			}
			mu.Unlock()
		}
		out.Steps++
		last = p.g.name
		lastSite[p.g.name] = p.site
		out.Sites[p.site]++
		note(fmt.Sprintf("%s @%s /%d", p.g.name, p.site, len(cands)))
		if changeAt != nil && changeAt[out.Steps] {
			lowCounter += 1
			prio[p.g.name] = 1 - lowCounter/1000
		}
		if cfg.CrashStep > 0 && out.Steps >= cfg.CrashStep {
			out.Status = "crash"
			crashWhy = fmt.Sprintf("step %d", out.Steps)
			mu.Lock()
			parkL = append(parkL, p)
			mu.Unlock()
			break
		}
		if int64(out.Steps) > int64(cfg.MaxSteps)+dynSteps.Load() {
			out.Status = "livelock"
			break
		}
		close(p.wake)
	}
	active.Store(false)
	verifSetSelectRand(nil)
	out.ExitCode = exitCode
	out.ExitStack = exitStack
	out.CrashWhy = crashWhy
	out.PanicText = panicText
	out.Ticks = ticks.Load()
	mu.Lock()
	out.MapRaces = append([]string{}, mapRaces...)
	out.MapChecks = mapChecks
	for _, l := range mapAccs {
		if len(l) > 1 {
			out.MapShared++
		}
	}
	mu.Unlock()
	out.TraceHash = fmt.Sprintf("%016x", th.Sum64())
	out.States = len(states)
	if cfg.WantTrace {
		for h := range states {
			out.StateHashes = append(out.StateHashes, h)
		}
		sort.Slice(out.StateHashes, func(i, j int) bool { return out.StateHashes[i] < out.StateHashes[j] })
	}
	if out.Status == "deadlock" || out.Status == "livelock" {
		mu.Lock()
		for _, c := range parkL {
			out.Blocked = append(out.Blocked, "parked "+c.g.name+" @"+c.site)
		}
		mu.Unlock()
		for _, nm := range out.Goroutines {
			out.Blocked = append(out.Blocked, "last "+nm+" @"+lastSite[nm])
		}
	}
	return out
}
