// empty: allows go:linkname declarations without bodies
