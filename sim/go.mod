module verifsim

go 1.26

require github.com/johnkerl/miller/v6 v6.0.0

require (
	github.com/ProtonMail/go-crypto v1.4.1 // indirect
	github.com/cloudflare/circl v1.6.3 // indirect
	github.com/facette/natsort v0.0.0-20181210072756-2cd4dd1e2dcb // indirect
	github.com/golang/snappy v1.0.0 // indirect
	github.com/google/jsonschema-go v0.4.3 // indirect
	github.com/johnkerl/lumin v1.0.0 // indirect
	github.com/johnkerl/pgpg/go v1.0.0 // indirect
	github.com/kballard/go-shellquote v0.0.0-20180428030007-95032a82bc51 // indirect
	github.com/klauspost/compress v1.19.2 // indirect
	github.com/kshedden/dstream v0.0.0-20190512025041-c4c410631beb // indirect
	github.com/kshedden/statmodel v0.0.0-20210519035403-ee97d3e48df1 // indirect
	github.com/lestrrat-go/strftime v1.2.0 // indirect
	github.com/mattn/go-isatty v0.0.24 // indirect
	github.com/modelcontextprotocol/go-sdk v1.7.0 // indirect
	github.com/rivo/uniseg v0.4.7 // indirect
	github.com/segmentio/asm v1.1.3 // indirect
	github.com/segmentio/encoding v0.5.4 // indirect
	github.com/yosida95/uritemplate/v3 v3.0.2 // indirect
	golang.org/x/crypto v0.52.0 // indirect
	golang.org/x/oauth2 v0.35.0 // indirect
	golang.org/x/sync v0.22.0 // indirect
	golang.org/x/sys v0.47.0 // indirect
	golang.org/x/term v0.45.0 // indirect
	golang.org/x/text v0.41.0 // indirect
	golang.org/x/time v0.15.0 // indirect
	golang.org/x/tools v0.48.0 // indirect
	gonum.org/v1/gonum v0.16.0 // indirect
	gopkg.in/yaml.v3 v3.0.1 // indirect
	pault.ag/go/debian v0.21.0 // indirect
	pault.ag/go/topsort v0.1.1 // indirect
)

replace github.com/johnkerl/miller/v6 => /repo
