package worker

import (
	"encoding/base64"
	"encoding/json"
	"flag"
	"fmt"
	"os"
	"path/filepath"
	"sort"
	"strings"
	"syscall"
	"testing"
	"testing/synctest"

	"github.com/johnkerl/miller/v6/pkg/entrypoint"
	"verifsim/rt"
)

var specPath = flag.String("spec", "", "run spec (JSON)")
var resultPath = flag.String("result", "", "where to write the result (JSON)")

type FileSpec struct {
	B64  string `json:"b64"`
	Mode uint32 `json:"mode"`
}

type Spec struct {
	Mode       string              `json:"mode"` // sim | staged
	Args       []string            `json:"args"`
	Env        map[string]string   `json:"env"`
	Dir        string              `json:"dir"`
	Files      map[string]FileSpec `json:"files"`
	Links      map[string]string   `json:"links"`
	Stdin      *StdinSpec          `json:"stdin"`
	Sched      rt.Config           `json:"sched"`
	Chunk      Chunk               `json:"chunk"`
	Faults     []*Fault            `json:"faults"`
	CrashOp    *int                `json:"crash_op"`
	Snapshot   bool                `json:"snapshot"`
	SnapAtExit bool                `json:"snap_at_exit"`
	LogOps     bool                `json:"log_ops"`
	Tail       bool                `json:"tail"`
	FdLimit    int                 `json:"fd_limit"`
	RFdLimit   int                 `json:"rfd_limit"`
	KeepDir    bool                `json:"keep_dir"`
	MaxOut     int                 `json:"max_out"`
	StagedCap  int                 `json:"staged_cap"`
}

type FileOut struct {
	B64  string `json:"b64"`
	Mode uint32 `json:"mode"`
	Size int64  `json:"size"`
}

type Result struct {
	Outcome    *rt.Outcome        `json:"outcome"`
	Stdout     string             `json:"stdout_b64"`
	Stderr     string             `json:"stderr_b64"`
	StdoutLen  int                `json:"stdout_len"`
	Files      map[string]FileOut `json:"files,omitempty"`
	FsOps      []string           `json:"fsops,omitempty"`
	OpCount    int                `json:"op_count"`
	Fired      []FiredFault       `json:"fired"`
	Deliveries []Delivery         `json:"deliveries,omitempty"`
	MaxOpenW   int                `json:"max_open_w"`
	MaxOpenR   int                `json:"max_open_r"`
	OpenRAtEnd int                `json:"open_r_at_end"`
	OpenWAtEnd int                `json:"open_w_at_end"`
	GuardHits  []string           `json:"guard_hits,omitempty"`
	Reads      int                `json:"reads"`
	Writes     int                `json:"writes"`
	Children   bool               `json:"children"`
	ChildPolls int                `json:"child_polls"`
	StdinRead  int                `json:"stdin_read"`
	Note       string             `json:"note,omitempty"`
	ExitNormal bool               `json:"exit_normal"` // exit came through entrypoint.exitOnError or plain return
}

func die(format string, a ...interface{}) {
	fmt.Fprintf(os.Stderr, "simworker: "+format+"\n", a...)
	os.Exit(3)
}

func TestSim(t *testing.T) {
	if *specPath == "" {
		t.Skip("no -spec")
	}
	raw, err := os.ReadFile(*specPath)
	if err != nil {
		die("%v", err)
	}
	var spec Spec
	if err := json.Unmarshal(raw, &spec); err != nil {
		die("spec: %v", err)
	}
	if spec.Dir == "" || !strings.HasPrefix(spec.Dir, "/dev/shm/") {
		die("spec.dir must be under /dev/shm")
	}
	if spec.MaxOut <= 0 {
		spec.MaxOut = 64 << 20
	}
	realStdout, realStderr := os.Stdout, os.Stderr
	_ = realStdout
	// scratch directory
	os.RemoveAll(spec.Dir)
	if err := os.MkdirAll(spec.Dir, 0755); err != nil {
		die("%v", err)
	}
	for name, fs := range spec.Files {
		p := filepath.Join(spec.Dir, name)
		os.MkdirAll(filepath.Dir(p), 0755)
		b, err := base64.StdEncoding.DecodeString(fs.B64)
		if err != nil {
			die("file %s: %v", name, err)
		}
		mode := os.FileMode(fs.Mode)
		if mode == 0 {
			mode = 0644
		}
		if err := os.WriteFile(p, b, mode); err != nil {
			die("%v", err)
		}
		os.Chmod(p, mode)
	}
	for name, target := range spec.Links {
		os.Symlink(target, filepath.Join(spec.Dir, name))
	}
	if err := os.Chdir(spec.Dir); err != nil {
		die("%v", err)
	}
	root, _ := filepath.EvalSymlinks(spec.Dir)
	outF, err := os.Create(spec.Dir + ".stdout")
	if err != nil {
		die("%v", err)
	}
	errF, err := os.Create(spec.Dir + ".stderr")
	if err != nil {
		die("%v", err)
	}
	inF, _ := os.Open("/dev/null")
	for k, v := range spec.Env {
		os.Setenv(k, v)
	}
	os.Args = spec.Args
	os.Stdout, os.Stderr, os.Stdin = outF, errF, inF

	s := &seamState{
		root: root, stdout: outF, stderr: errF, stdin: inF,
		faults: spec.Faults, chunk: spec.Chunk, crashOp: -1, logOps: spec.LogOps,
		readBytes: map[*os.File]int64{}, wrBytes: map[*os.File]int64{}, names: map[*os.File]string{},
		wrOpen: map[*os.File]bool{}, chunkRng: map[*os.File]*uint64{}, pipeFds: map[*os.File]int{}, pipeWFds: map[*os.File]int{},
		fdLimit: spec.FdLimit, rfdLimit: spec.RFdLimit, rdOpen: map[*os.File]bool{}, tail: spec.Tail,
	}
	if spec.CrashOp != nil {
		s.crashOp = *spec.CrashOp
	}
	if spec.Stdin != nil {
		b, err := base64.StdEncoding.DecodeString(spec.Stdin.B64)
		if err != nil {
			die("stdin: %v", err)
		}
		s.sdata = b
		if spec.Stdin.Arrivals == nil {
			s.savail = len(b)
			s.seof = true
		} else {
			s.arrivals = spec.Stdin.Arrivals
		}
	} else {
		s.seof = true
	}
	seam = s
	s.install()
	rt.OnIdle(s.idleStdin)
	rt.OnIdle(s.idleChildren)

	res := &Result{}
	if spec.Mode == "staged" {
		os.VerifExitHook = func(code int) {
			// direct os.Exit somewhere below (possibly on a reader goroutine): finish right here
			r2 := &Result{Outcome: &rt.Outcome{Status: "exit", ExitCode: code}, ExitNormal: false}
			finalize(&spec, s, r2, realStdout, realStderr, outF, errF)
		}
		code, note := runStaged(spec.Args, outF, spec.StagedCap)
		res.Outcome = &rt.Outcome{Status: "exit", ExitCode: code}
		if note != "" {
			res.Outcome.Status = "unsupported"
			res.Note = note
		}
		res.ExitNormal = true
	} else {
		var oc *rt.Outcome
		func() {
			defer func() {
				if r := recover(); r != nil {
					// the bubble's end-of-test complaint about parked goroutines is expected
					msg := fmt.Sprint(r)
					if !strings.Contains(msg, "deadlock") && !strings.Contains(msg, "blocked goroutines") {
						fmt.Fprintf(realStderr, "simworker: recovered: %v\n", r)
					}
				}
			}()
			synctest.Test(t, func(t *testing.T) {
				oc = rt.Run(spec.Sched, synctest.Wait, func() {
					entrypoint.Main()
				})
			})
		}()
		if oc == nil {
			die("scheduler returned nothing")
		}
		res.Outcome = oc
		if s.stalled && oc.Status == "deadlock" {
			oc.Status = "child-stall"
		}
		if oc.Status == "returned" {
			res.ExitNormal = true
		} else if oc.Status == "exit" {
			res.ExitNormal = strings.Contains(oc.ExitStack, "entrypoint.exitOnError")
			if !spec.Sched.WantTrace {
				oc.ExitStack = lastFrames(oc.ExitStack)
			}
		}
	}
	finalize(&spec, s, res, realStdout, realStderr, outF, errF)
}

var finalizeOnce bool

func finalize(spec *Spec, s *seamState, res *Result, realStdout, realStderr, outF, errF *os.File) {
	if finalizeOnce {
		ParkHere()
	}
	finalizeOnce = true
	uninstall()
	if spec.Snapshot && spec.SnapAtExit {
		// what the directory looks like at the instant the simulated process exits: children it started and did not
		// wait for may not have finished (their output files are then incomplete)
		takeSnapshot(spec, res)
	}
	if s.children && (res.Outcome.Status == "returned" || res.Outcome.Status == "exit") {
		// let real children finish (as a shell would wait for the pipeline)
		for f := range s.wrOpen {
			_ = f
		}
		reapAll()
	}
	os.Stdout, os.Stderr = realStdout, realStderr
	outF.Close()
	errF.Close()
	ob, _ := os.ReadFile(spec.Dir + ".stdout")
	eb, _ := os.ReadFile(spec.Dir + ".stderr")
	res.StdoutLen = len(ob)
	if len(ob) > spec.MaxOut {
		ob = ob[:spec.MaxOut]
	}
	res.Stdout = base64.StdEncoding.EncodeToString(ob)
	if len(eb) > 1<<16 {
		eb = eb[:1<<16]
	}
	res.Stderr = base64.StdEncoding.EncodeToString(eb)
	res.FsOps = s.fsops
	res.OpCount = s.opCount
	res.Fired = s.fired
	res.Deliveries = s.deliveries
	res.MaxOpenW = s.maxOpenW
	res.MaxOpenR = s.maxOpenR
	res.OpenRAtEnd = s.openR
	res.OpenWAtEnd = s.openW
	res.GuardHits = s.guardHits
	res.Reads = s.reads
	res.Writes = s.writes
	res.Children = s.children
	res.ChildPolls = s.childPolls
	res.StdinRead = s.spos
	if spec.Snapshot {
		takeSnapshot(spec, res)
	}
	if !spec.KeepDir {
		os.Chdir("/")
		os.RemoveAll(spec.Dir)
		os.Remove(spec.Dir + ".stdout")
		os.Remove(spec.Dir + ".stderr")
	}
	js, _ := json.Marshal(res)
	if *resultPath == "" {
		realStdout.Write(js)
	} else if err := os.WriteFile(*resultPath, js, 0644); err != nil {
		die("%v", err)
	}
	// leave without running deferred test machinery: parked goroutines may remain
	syscall.Exit(0)
}

// takeSnapshot records the regular files under the run's directory.
func takeSnapshot(spec *Spec, res *Result) {
	if res.Files != nil {
		return
	}
	res.Files = map[string]FileOut{}
	var names []string
	filepath.Walk(spec.Dir, func(p string, info os.FileInfo, err error) error {
		if err != nil {
			return nil
		}
		if info.Mode()&os.ModeSymlink != 0 {
			return nil
		}
		if info.IsDir() {
			return nil
		}
		names = append(names, p)
		return nil
	})
	sort.Strings(names)
	total := 0
	for _, p := range names {
		rel, _ := filepath.Rel(spec.Dir, p)
		fi, err := os.Lstat(p)
		if err != nil || !fi.Mode().IsRegular() {
			continue
		}
		b, _ := os.ReadFile(p)
		total += len(b)
		fo := FileOut{Mode: uint32(fi.Mode().Perm()), Size: int64(len(b))}
		if total <= spec.MaxOut {
			fo.B64 = base64.StdEncoding.EncodeToString(b)
		}
		res.Files[rel] = fo
	}
}

func ParkHere() { select {} }

func lastFrames(stack string) string {
	lines := strings.Split(stack, "\n")
	var keep []string
	for _, l := range lines {
		if strings.Contains(l, "github.com/johnkerl/miller") && !strings.HasPrefix(l, "\t") {
			keep = append(keep, strings.TrimSpace(l))
			if len(keep) >= 6 {
				break
			}
		}
	}
	return strings.Join(keep, " <- ")
}
