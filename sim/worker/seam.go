package worker

// The os seam: every file operation of the system under test is a scheduling
// point, a fault point and a crash point.

import (
	"fmt"
	"io"
	"os"
	"path/filepath"
	"strings"
	"sync"
	"syscall"
	"unsafe"

	"verifsim/rt"
)

type Fault struct {
	Kind   string `json:"kind"`  // read_err | write_err | op_err
	Path   string `json:"path"`  // substring of the file name ("__stdout__", "__stdin__" for the std streams)
	At     int64  `json:"at"`    // byte offset (read_err / write_err)
	Errno  string `json:"errno"` // EIO, ENOSPC, ...
	Torn   bool   `json:"torn"`  // write_err: write the bytes before the offset, then fail
	Op     string `json:"op"`    // op_err: open | openw | close | rename | chmod | remove | stat | mkdir
	Nth    int    `json:"nth"`   // op_err: 0-based index among matching ops
	Sticky bool   `json:"sticky"`

	seen  int
	fired int
}

type Chunk struct {
	Max  int    `json:"max"`  // 0 = off
	Mode string `json:"mode"` // fixed | random
	Seed uint64 `json:"seed"`
}

type StdinSpec struct {
	B64      string `json:"b64"`
	Arrivals []int  `json:"arrivals"` // cumulative byte counts; nil = everything at once
}

type Delivery struct {
	Delivered int   `json:"delivered"`
	Stdout    int64 `json:"stdout"`
	EOF       bool  `json:"eof"`
}

type FiredFault struct {
	Index int    `json:"index"`
	Kind  string `json:"kind"`
	What  string `json:"what"`
	Op    int    `json:"op"`
}

type seamState struct {
	mu        sync.Mutex
	root      string // resolved scratch dir
	stdout    *os.File
	stderr    *os.File
	stdin     *os.File
	faults    []*Fault
	fired     []FiredFault
	chunk     Chunk
	crashOp   int // crash before mutating op #crashOp (-1 none)
	opCount   int // mutating ops so far
	fsops     []string
	logOps    bool
	readBytes map[*os.File]int64
	wrBytes   map[*os.File]int64
	names     map[*os.File]string
	wrOpen    map[*os.File]bool
	openW     int
	maxOpenW  int
	fdLimit   int
	rdOpen    map[*os.File]bool // input handles (opened read-only by the system under test) not yet closed
	openR     int
	maxOpenR  int
	rfdLimit  int // simulated descriptor limit for input handles: a further read-only open fails with EMFILE
	guardHits []string
	tempSeq   int
	chunkRng  map[*os.File]*uint64
	reads     int
	writes    int

	// simulated stdin
	sdata      []byte
	arrivals   []int
	savail     int
	spos       int
	sdeliv     int
	seof       bool
	swaiter    chan struct{}
	deliveries []Delivery
	tail       bool

	// subprocesses
	childWaiters []*childWaiter
	childPolls   int
	pipeFds      map[*os.File]int
	pipeWFds     map[*os.File]int
	stalled      bool
	pipeWaiters  []*pipeWaiter
	children     bool
}

type childWaiter struct {
	pid  int
	wake chan struct{}
}

type pipeWaiter struct {
	f     *os.File
	fd    int
	write bool
	wake  chan struct{}
}

var seam *seamState

var errnos = map[string]syscall.Errno{
	"EIO": syscall.EIO, "ENOSPC": syscall.ENOSPC, "EACCES": syscall.EACCES, "ENOENT": syscall.ENOENT,
	"EMFILE": syscall.EMFILE, "EPIPE": syscall.EPIPE, "EXDEV": syscall.EXDEV, "EPERM": syscall.EPERM,
	"EISDIR": syscall.EISDIR, "EROFS": syscall.EROFS, "EDQUOT": syscall.EDQUOT, "EBADF": syscall.EBADF,
	"ENOTDIR": syscall.ENOTDIR, "EEXIST": syscall.EEXIST, "EINTR": syscall.EINTR, "EAGAIN": syscall.EAGAIN,
}

func errnoOf(s string) syscall.Errno {
	if e, ok := errnos[s]; ok {
		return e
	}
	return syscall.EIO
}

func (s *seamState) nameOf(f *os.File) string {
	switch f {
	case s.stdout:
		return "__stdout__"
	case s.stderr:
		return "__stderr__"
	case s.stdin:
		return "__stdin__"
	}
	return f.Name()
}

func (s *seamState) fire(i int, f *Fault, what string) {
	f.fired++
	s.fired = append(s.fired, FiredFault{Index: i, Kind: f.Kind, What: what, Op: s.opCount})
	rt.TraceNote("FAULT " + f.Kind + " " + what)
}

// mutating op bookkeeping: log, crash point.
func (s *seamState) mutOp(desc string) {
	if s.crashOp >= 0 && s.opCount == s.crashOp {
		rt.TraceNote("CRASH before op " + desc)
		rt.Crash(fmt.Sprintf("before fs-op %d: %s", s.opCount, desc))
	}
	s.opCount++
	if s.logOps {
		s.fsops = append(s.fsops, desc)
	}
	rt.TraceNote("FSOP " + desc)
}

func (s *seamState) resolve(name string) string {
	abs := name
	if !filepath.IsAbs(abs) {
		wd, _ := os.Getwd()
		abs = filepath.Join(wd, abs)
	}
	abs = filepath.Clean(abs)
	dir, base := filepath.Split(abs)
	if rd, err := filepath.EvalSymlinks(dir); err == nil {
		abs = filepath.Join(rd, base)
	}
	// the final component may itself be a symlink
	if fi, err := os.Lstat(abs); err == nil && fi.Mode()&os.ModeSymlink != 0 {
		if r, err := filepath.EvalSymlinks(abs); err == nil {
			abs = r
		}
	}
	return abs
}

func (s *seamState) inScratch(name string) bool {
	abs := s.resolve(name)
	return abs == s.root || strings.HasPrefix(abs, s.root+"/") || abs == "/dev/null"
}

func (s *seamState) rel(name string) string {
	abs := s.resolve(name)
	if strings.HasPrefix(abs, s.root+"/") {
		return abs[len(s.root)+1:]
	}
	return name
}

func (s *seamState) nextChunk(f *os.File, n int) int {
	if s.chunk.Max <= 0 || n <= 1 {
		return n
	}
	m := s.chunk.Max
	if s.chunk.Mode == "random" {
		st := s.chunkRng[f]
		if st == nil {
			v := s.chunk.Seed
			for _, c := range []byte(s.nameOf(f)) {
				v = (v ^ uint64(c)) * 1099511628211
			}
			st = &v
			s.chunkRng[f] = st
		}
		*st += 0x9e3779b97f4a7c15
		z := *st
		z = (z ^ (z >> 30)) * 0xbf58476d1ce4e5b9
		z = (z ^ (z >> 27)) * 0x94d049bb133111eb
		z ^= z >> 31
		m = 1 + int(z%uint64(s.chunk.Max))
	}
	if n > m {
		return m
	}
	return n
}

func (s *seamState) hookRead(f *os.File, b []byte) (int, error, bool) {
	if !rt.Active() && f == s.stdin {
		// staged mode: the whole simulated stdin is available at once
		if s.spos < len(s.sdata) {
			n := copy(b, s.sdata[s.spos:])
			s.spos += n
			return n, nil, true
		}
		return 0, io.EOF, true
	}
	if !rt.Active() || f == s.stdout || f == s.stderr {
		return 0, nil, false
	}
	name := s.nameOf(f)
	rt.Yield("os.read")
	s.reads++
	// fault: sticky read error from byte At
	sofar := s.readBytes[f]
	limit := int64(-1)
	for i, ft := range s.faults {
		if ft.Kind != "read_err" || !strings.Contains(name, ft.Path) {
			continue
		}
		if sofar >= ft.At {
			if ft.fired == 0 {
				s.fire(i, ft, fmt.Sprintf("%s at byte %d", name, sofar))
			}
			return 0, &os.PathError{Op: "read", Path: f.Name(), Err: errnoOf(ft.Errno)}, true
		}
		if limit < 0 || ft.At-sofar < limit {
			limit = ft.At - sofar
		}
	}
	if len(b) == 0 {
		return 0, nil, true
	}
	want := s.nextChunk(f, len(b))
	if limit >= 0 && int64(want) > limit {
		want = int(limit)
	}
	if f == s.stdin {
		for {
			if s.spos < s.savail {
				n := copy(b[:want], s.sdata[s.spos:s.savail])
				s.spos += n
				s.readBytes[f] += int64(n)
				rt.AddStepBudget(n)
				return n, nil, true
			}
			if s.seof {
				return 0, io.EOF, true
			}
			w := make(chan struct{})
			s.mu.Lock()
			s.swaiter = w
			s.mu.Unlock()
			<-w
		}
	}
	if fd, ok := s.pipeFds[f]; ok {
		// inbound pipe from a real child: park durably while it is empty
		for !pipeReady(fd, false) {
			w := &pipeWaiter{f: f, fd: fd, wake: make(chan struct{})}
			s.mu.Lock()
			s.pipeWaiters = append(s.pipeWaiters, w)
			s.mu.Unlock()
			<-w.wake
			if _, still := s.pipeFds[f]; !still {
				break
			}
		}
	}
	n, err := f.VerifRawRead(b[:want])
	s.readBytes[f] += int64(n)
	rt.AddStepBudget(n)
	return n, err, true
}

func (s *seamState) hookWrite(f *os.File, b []byte) (int, error, bool) {
	if !rt.Active() || f == s.stderr {
		return 0, nil, false
	}
	name := s.nameOf(f)
	rt.Yield("os.write")
	s.writes++
	s.mutOp(fmt.Sprintf("write %s %d", s.relName(f), len(b)))
	sofar := s.wrBytes[f]
	for i, ft := range s.faults {
		if ft.Kind != "write_err" || !strings.Contains(name, ft.Path) {
			continue
		}
		if sofar+int64(len(b)) > ft.At {
			k := 0
			if ft.Torn && ft.fired == 0 && ft.At > sofar {
				k = int(ft.At - sofar)
			}
			if ft.fired == 0 {
				s.fire(i, ft, fmt.Sprintf("%s at byte %d (+%d torn)", name, sofar, k))
			}
			n := 0
			if k > 0 {
				n, _ = f.VerifRawWrite(b[:k])
				s.wrBytes[f] += int64(n)
			}
			pth := f.Name()
			if f == s.stdout {
				pth = "/dev/stdout"
			}
			return n, &os.PathError{Op: "write", Path: pth, Err: errnoOf(ft.Errno)}, true
		}
	}
	if fd, ok := s.pipeWFds[f]; ok {
		// outbound pipe to a real child: never block in the kernel (not a durable block for the
		// bubble); write PIPE_BUF-sized pieces, parking durably while the pipe is full
		total := 0
		for total < len(b) {
			for !pipeReady(fd, true) {
				w := &pipeWaiter{f: f, fd: fd, write: true, wake: make(chan struct{})}
				s.mu.Lock()
				s.pipeWaiters = append(s.pipeWaiters, w)
				s.mu.Unlock()
				<-w.wake
			}
			end := total + 4096
			if end > len(b) {
				end = len(b)
			}
			n, err := f.VerifRawWrite(b[total:end])
			total += n
			s.wrBytes[f] += int64(n)
			if err != nil {
				return total, err, true
			}
		}
		return total, nil, true
	}
	n, err := f.VerifRawWrite(b)
	s.wrBytes[f] += int64(n)
	return n, err, true
}

func (s *seamState) relName(f *os.File) string {
	switch f {
	case s.stdout:
		return "__stdout__"
	case s.stdin:
		return "__stdin__"
	}
	if n, ok := s.names[f]; ok {
		return n
	}
	return f.Name()
}

func (s *seamState) opFault(op, name string) error {
	for i, ft := range s.faults {
		if ft.Kind != "op_err" || ft.Op != op || !strings.Contains(name, ft.Path) {
			continue
		}
		k := ft.seen
		ft.seen++
		if k == ft.Nth || (ft.Sticky && k > ft.Nth) {
			s.fire(i, ft, fmt.Sprintf("%s %s #%d", op, name, k))
			return errnoOf(ft.Errno)
		}
	}
	return nil
}

func (s *seamState) hookClose(f *os.File) error {
	if !rt.Active() || f == s.stdout || f == s.stderr || f == s.stdin {
		return nil
	}
	rt.Yield("os.close")
	delete(s.pipeWFds, f)
	if _, ok := s.pipeFds[f]; ok {
		delete(s.pipeFds, f)
		s.mu.Lock()
		ws := s.pipeWaiters
		var keep []*pipeWaiter
		for _, w := range ws {
			if w.f == f {
				close(w.wake)
			} else {
				keep = append(keep, w)
			}
		}
		s.pipeWaiters = keep
		s.mu.Unlock()
	}
	if s.rdOpen[f] {
		delete(s.rdOpen, f)
		s.openR--
	}
	if s.wrOpen[f] {
		s.mutOp("close " + s.relName(f))
		delete(s.wrOpen, f)
		s.openW--
		if e := s.opFault("close", s.relName(f)); e != nil {
			return &os.PathError{Op: "close", Path: f.Name(), Err: e}
		}
	}
	return nil
}

func (s *seamState) hookPath(op, name, name2 string, flag int) error {
	writeOpen := op == "open" && flag&(os.O_WRONLY|os.O_RDWR|os.O_CREATE|os.O_TRUNC|os.O_APPEND) != 0
	mutating := writeOpen || op == "rename" || op == "remove" || op == "chmod" || op == "mkdir"
	if mutating {
		ok := s.inScratch(name)
		if ok && op == "rename" {
			ok = s.inScratch(name2)
		}
		if !ok {
			s.guardHits = append(s.guardHits, op+" "+name)
			rt.TraceNote("WRITEGUARD " + op + " " + name)
			return &os.PathError{Op: op, Path: name, Err: syscall.EROFS}
		}
	}
	if !rt.Active() {
		return nil
	}
	if op == "stat" && !mutating {
		// not a scheduling point of interest, but a fault point
		if e := s.opFault("stat", name); e != nil {
			return &os.PathError{Op: "stat", Path: name, Err: e}
		}
		return nil
	}
	rt.Yield("os." + op)
	fop := op
	if writeOpen {
		fop = "openw"
	}
	if mutating {
		d := fop + " " + s.rel(name)
		if name2 != "" {
			d += " " + s.rel(name2)
		}
		s.mutOp(d)
		if writeOpen && s.fdLimit > 0 && s.openW >= s.fdLimit {
			rt.TraceNote("EMFILE " + name)
			return &os.PathError{Op: "open", Path: name, Err: syscall.EMFILE}
		}
	}
	if op == "open" && !writeOpen && s.rfdLimit > 0 && s.openR >= s.rfdLimit {
		rt.TraceNote("EMFILE(read) " + name)
		s.fired = append(s.fired, FiredFault{Index: -1, Kind: "emfile_read", What: fmt.Sprintf("%s with %d input handles open", s.rel(name), s.openR), Op: s.opCount})
		return &os.PathError{Op: "open", Path: name, Err: syscall.EMFILE}
	}
	if e := s.opFault(fop, name); e != nil {
		if op == "rename" {
			return &os.LinkError{Op: "rename", Old: name, New: name2, Err: e}
		}
		return &os.PathError{Op: op, Path: name, Err: e}
	}
	return nil
}

func (s *seamState) hookOpened(f *os.File, name string, flag int) {
	if !rt.Active() {
		return
	}
	if flag&(os.O_WRONLY|os.O_RDWR|os.O_CREATE|os.O_TRUNC|os.O_APPEND) != 0 {
		s.wrOpen[f] = true
		s.names[f] = s.rel(name)
		s.openW++
		if s.openW > s.maxOpenW {
			s.maxOpenW = s.openW
		}
	} else {
		s.rdOpen[f] = true
		s.openR++
		if s.openR > s.maxOpenR {
			s.maxOpenR = s.openR
		}
	}
}

func (s *seamState) hookTempName() string {
	s.tempSeq++
	return fmt.Sprintf("%d", 1000000+s.tempSeq)
}

func (s *seamState) hookPiped(r, w *os.File, rfd, wfd int) {
	if !rt.Active() {
		return
	}
	s.pipeFds[r] = rfd
	s.pipeWFds[w] = wfd
	s.children = true
}

// ---- idle handlers

func (s *seamState) idleStdin() bool {
	s.mu.Lock()
	w := s.swaiter
	s.swaiter = nil
	s.mu.Unlock()
	if w == nil {
		return false
	}
	if s.tail {
		var sz int64
		if st, err := s.stdout.Stat(); err == nil {
			sz = st.Size()
		}
		s.deliveries = append(s.deliveries, Delivery{Delivered: s.savail, Stdout: sz})
	}
	if s.sdeliv < len(s.arrivals) {
		s.savail = s.arrivals[s.sdeliv]
		s.sdeliv++
		rt.TraceNote(fmt.Sprintf("STDIN deliver upto %d", s.savail))
	} else {
		s.seof = true
		rt.TraceNote("STDIN eof")
	}
	close(w)
	return true
}

func pipeReady(fd int, write bool) bool {
	type pollfd struct {
		fd      int32
		events  int16
		revents int16
	}
	p := pollfd{fd: int32(fd), events: 1 /*POLLIN*/}
	if write {
		p.events = 4 /*POLLOUT*/
	}
	n, _, e := syscall.Syscall(syscall.SYS_POLL, uintptr(unsafe.Pointer(&p)), 1, 0)
	if e != 0 {
		return true
	}
	return n > 0 && p.revents != 0
}

func childExited(pid int) bool {
	var info [128]byte
	const P_PID = 1
	const WEXITED = 4
	const WNOHANG = 1
	const WNOWAIT = 0x01000000
	_, _, e := syscall.Syscall6(syscall.SYS_WAITID, P_PID, uintptr(pid), uintptr(unsafe.Pointer(&info[0])), WEXITED|WNOHANG|WNOWAIT, 0, 0)
	if e != 0 {
		return true
	}
	sipid := *(*int32)(unsafe.Pointer(&info[16]))
	return sipid != 0
}

func (s *seamState) waitHook(p *os.Process) {
	if !rt.Active() {
		return
	}
	s.children = true
	w := &childWaiter{pid: p.Pid, wake: make(chan struct{})}
	s.mu.Lock()
	s.childWaiters = append(s.childWaiters, w)
	s.mu.Unlock()
	<-w.wake
}

// idleChildren polls real children / pipes (real 1 ms naps, capped).
func (s *seamState) idleChildren() bool {
	s.mu.Lock()
	nw := len(s.childWaiters) + len(s.pipeWaiters)
	s.mu.Unlock()
	if nw == 0 {
		return false
	}
	grace := 0
	for tries := 0; tries < 8000; tries++ {
		s.mu.Lock()
		// prefer data on pipes over child exits so that output is read before the close
		for i, w := range s.pipeWaiters {
			if pipeReady(w.fd, w.write) {
				s.pipeWaiters = append(append([]*pipeWaiter{}, s.pipeWaiters[:i]...), s.pipeWaiters[i+1:]...)
				s.mu.Unlock()
				close(w.wake)
				return true
			}
		}
		for i, w := range s.childWaiters {
			if childExited(w.pid) {
				s.childWaiters = append(append([]*childWaiter{}, s.childWaiters[:i]...), s.childWaiters[i+1:]...)
				s.mu.Unlock()
				close(w.wake)
				return true
			}
		}
		nchild := len(s.childWaiters)
		s.mu.Unlock()
		if nchild == 0 {
			// every direct child has exited and been reaped by its waiter. A pipe that is still not ready
			// may be held by a grandchild (sh -c 'cmd & ...') for a moment longer: allow a grace period
			// of real time before calling it a deadlock of the system under test
			grace++
			if grace > 1500 {
				return false
			}
		}
		s.childPolls++
		ts := syscall.Timespec{Sec: 0, Nsec: 1000000}
		syscall.Nanosleep(&ts, nil)
	}
	s.stalled = true
	return false
}

// reapAll waits (bounded) until the process has no children left.
func reapAll() {
	for tries := 0; tries < 5000; tries++ {
		var ws syscall.WaitStatus
		pid, err := syscall.Wait4(-1, &ws, syscall.WNOHANG, nil)
		if err == syscall.ECHILD {
			return
		}
		if pid > 0 {
			continue
		}
		ts := syscall.Timespec{Sec: 0, Nsec: 1000000}
		syscall.Nanosleep(&ts, nil)
	}
}

func (s *seamState) install() {
	os.VerifFileHook = &os.VerifFileHooks{
		Read:     s.hookRead,
		Write:    s.hookWrite,
		Close:    s.hookClose,
		Path:     s.hookPath,
		Opened:   s.hookOpened,
		TempName: s.hookTempName,
		Piped:    s.hookPiped,
	}
	os.VerifWaitHook = s.waitHook
	os.VerifExitHook = rt.Exit
}

func uninstall() {
	os.VerifFileHook = nil
	os.VerifWaitHook = nil
	os.VerifExitHook = nil
}
