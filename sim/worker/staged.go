package worker

// The reference executor: W(Tn(... T1(R(inputs)) ...)) computed one stage at a
// time, with no pipeline machinery between the stages: no batching (one batch
// of everything), no back-pressure, no early exit, no scheduler.  It is a
// model of composition / batching / error plumbing, not of verb semantics: it
// shares the reader, verb and writer code with the system under test.

import (
	"bufio"
	"errors"
	"fmt"
	"os"
	"strings"

	"github.com/johnkerl/miller/v6/pkg/cli"
	"github.com/johnkerl/miller/v6/pkg/climain"
	"github.com/johnkerl/miller/v6/pkg/input"
	"github.com/johnkerl/miller/v6/pkg/lib"
	"github.com/johnkerl/miller/v6/pkg/output"
	"github.com/johnkerl/miller/v6/pkg/transformers"
	"github.com/johnkerl/miller/v6/pkg/types"
)

func stagedExitCode(err error, wantJSON bool) int {
	var exitRequest *lib.ExitRequest
	switch {
	case errors.Is(err, cli.ErrHelpRequested):
		return 0
	case errors.Is(err, cli.ErrUsagePrinted):
		return 1
	case errors.As(err, &exitRequest):
		return exitRequest.Code
	case wantJSON:
		climain.EmitStructuredError(err)
		return 1
	default:
		msg := err.Error()
		if strings.HasPrefix(msg, "mlr") {
			fmt.Fprintf(os.Stderr, "%v\n", msg)
		} else {
			fmt.Fprintf(os.Stderr, "mlr: %v\n", msg)
		}
		return 1
	}
}

// runStaged returns (exit code, note); a non-empty note means "not expressible
// in the staged model" (in-place mode, auxiliary commands, unbounded producers).
func runStaged(args []string, out *os.File, cap int) (int, string) {
	if cap <= 0 {
		cap = 2000000
	}
	if len(args) >= 2 {
		switch args[1] {
		case "lecat", "termcvt", "hex", "unhex", "help", "regtest", "repl", "version", "summary-help", "mcp":
			if args[1] != "help" && args[1] != "version" {
				return 0, "auxent"
			}
		}
	}
	if lib.IsTruthyEnvValue(os.Getenv("MLR_NO_SHELL")) {
		lib.DisableShellOut()
	}
	wantJSON := climain.WantErrorsJSON(args)
	options, xforms, err := climain.ParseCommandLine(args)
	if err != nil {
		return stagedExitCode(err, wantJSON), ""
	}
	if options.DoInPlace {
		return 0, "in-place"
	}
	const big = 1 << 15
	reader, err := input.Create(&options.ReaderOptions, big)
	if err != nil {
		return stagedExitCode(err, false), ""
	}
	writer, err := output.Create(&options.WriterOptions)
	if err != nil {
		return stagedExitCode(err, false), ""
	}
	// stage R
	rch := make(chan []*types.RecordAndContext, 2)
	ech := make(chan error, 1)
	dch := make(chan bool, 1)
	go reader.Read(options.FileNames, *types.NewContext(), rch, ech, dch)
	var stream []*types.RecordAndContext
	var ierr error
	for done := false; !done; {
		select {
		case e := <-ech:
			if ierr == nil {
				ierr = e
			}
		case b := <-rch:
			for _, r := range b {
				stream = append(stream, r)
				if r.EndOfStream {
					done = true
				}
			}
			if len(stream) > cap {
				return 0, "unbounded-input"
			}
		}
	}
	select {
	case e := <-ech:
		if ierr == nil {
			ierr = e
		}
	default:
	}
	// stages T1..Tn
	var terr error
	for _, xf := range xforms {
		var next []*types.RecordAndContext
		if sp, ok := xf.(transformers.StreamingProducer); ok {
			och := make(chan []*types.RecordAndContext, 1)
			idc := make(chan bool, 1)
			odc := make(chan bool, 1)
			go sp.ProduceStream(och, idc, odc)
			for done := false; !done; {
				b := <-och
				for _, r := range b {
					next = append(next, r)
					if r.EndOfStream {
						done = true
					}
				}
				if len(next) > cap {
					return 0, "unbounded-producer"
				}
			}
			stream = next
			continue
		}
		idc := make(chan bool, 1)
		odc := make(chan bool, 1)
		for _, r := range stream {
			if r.EndOfStream || r.Record != nil {
				if e := xf.Transform(r, &next, idc, odc); e != nil {
					if terr == nil {
						terr = e
					}
					next = append(next, types.NewEndOfStreamMarker(&r.Context))
					break
				}
			} else {
				next = append(next, r)
			}
			if r.EndOfStream {
				break
			}
			if len(next) > 4*cap {
				return 0, "unbounded-verb"
			}
		}
		stream = next
		// drain the done flags so that verbs that signal (head) never block
		select {
		case <-odc:
		default:
		}
	}
	// stage W
	wch := make(chan []*types.RecordAndContext, 1)
	wdone := make(chan bool, 1)
	werr := make(chan error, 1)
	bw := bufio.NewWriter(out)
	wch <- stream
	output.ChannelWriter(wch, writer, &options.WriterOptions, wdone, werr, bw, true)
	ferr := bw.Flush()
	var first error
	for _, e := range []error{ierr, terr} {
		if first == nil && e != nil {
			first = e
		}
	}
	select {
	case e := <-werr:
		if first == nil {
			first = e
		}
	default:
	}
	if first == nil {
		first = ferr
	}
	if first != nil {
		return stagedExitCode(first, false), ""
	}
	return 0, ""
}
