// instr: AST instrumenter for the Miller sources.
//
//	instr <repo-root> <out-dir>
//
// For every non-test Go file under <repo-root>/pkg (except generated
// pkg/parsing and pkg/terminals) and cmd/mlr it inserts (never rewrites,
// apart from `go` statements and two knob patterns):
//
//   - verifrt.Yield(site) before each statement containing a channel send,
//     receive, select, close(ch) or Lock()/RLock(); verifrt.Yield(site+"+")
//     after each send/receive statement and at the head of each non-default
//     select clause;
//   - go f(a,b) -> named, parked-at-start child with a recover() wrapper;
//   - verifrt.Locked()/Unlocking() around mutex sections;
//   - verifrt.Tick() at the head of every loop body;
//   - knobs: lruFileHandlerCapacity, bufio.NewReader/NewWriter sizes;
//   - verifrt.MapAccess(m, name, write, site) before each statement that indexes, ranges over or deletes from a
//     package-level map (shared-map discipline check, see rt.MapAccess).
//
// Output: <out-dir>/<rel path> for each changed file and <out-dir>/overlay.json
// ({"Replace": {abs original: abs instrumented}}).  Exit 2 on any trouble.
package main

import (
	"bytes"
	"encoding/json"
	"fmt"
	"go/ast"
	"go/format"
	"go/parser"
	"go/token"
	"os"
	"path/filepath"
	"sort"
	"strings"
)

var fset = token.NewFileSet()
var nsites int
var generated = map[ast.Node]bool{}
var knobsApplied = map[string]int{}

func call(fn string, args ...ast.Expr) *ast.CallExpr {
	return &ast.CallExpr{Fun: &ast.SelectorExpr{X: ast.NewIdent("verifrt"), Sel: ast.NewIdent(fn)}, Args: args}
}
func strlit(s string) ast.Expr { return &ast.BasicLit{Kind: token.STRING, Value: fmt.Sprintf("%q", s)} }
func intlit(n int) ast.Expr    { return &ast.BasicLit{Kind: token.INT, Value: fmt.Sprintf("%d", n)} }

// exprHasSync inspects n without descending into function literals or nested blocks.
func exprHasSync(n ast.Node) (recv bool, closeCall bool, lock bool) {
	if n == nil {
		return
	}
	ast.Inspect(n, func(x ast.Node) bool {
		switch v := x.(type) {
		case *ast.FuncLit:
			return false
		case *ast.BlockStmt:
			return false
		case *ast.UnaryExpr:
			if v.Op == token.ARROW {
				recv = true
			}
		case *ast.CallExpr:
			if id, ok := v.Fun.(*ast.Ident); ok && id.Name == "close" && len(v.Args) == 1 {
				closeCall = true
			}
			if se, ok := v.Fun.(*ast.SelectorExpr); ok && len(v.Args) == 0 {
				if se.Sel.Name == "Lock" || se.Sel.Name == "RLock" {
					lock = true
				}
			}
		}
		return true
	})
	return
}

func any3(a, b, c bool) bool { return a || b || c }

// otherSyncNames: methods of sync.Once, sync.WaitGroup, sync.Cond and the atomic types. Without type information any
// method of these names counts; a statement calling one is bracketed by verifrt.HBSync(), which only ever adds
// happens-before edges (fewer reports from the shared-map check, never more).
var otherSyncNames = map[string]bool{"Do": true, "Wait": true, "Done": true, "Store": true, "Load": true, "Swap": true, "CompareAndSwap": true,
	"Signal": true, "Broadcast": true}

func stmtHasOtherSync(s ast.Stmt) bool {
	switch s.(type) {
	case *ast.BlockStmt, *ast.LabeledStmt, *ast.CaseClause, *ast.CommClause, *ast.GoStmt, *ast.DeferStmt, *ast.SelectStmt, *ast.ForStmt, *ast.RangeStmt,
		*ast.SwitchStmt, *ast.TypeSwitchStmt, *ast.IfStmt:
		return false
	}
	found := false
	ast.Inspect(s, func(x ast.Node) bool {
		switch v := x.(type) {
		case *ast.FuncLit:
			return false
		case *ast.CallExpr:
			if se, ok := v.Fun.(*ast.SelectorExpr); ok && otherSyncNames[se.Sel.Name] {
				found = true
			}
		}
		return true
	})
	return found
}

func stmtNeedsYield(s ast.Stmt) bool {
	switch v := s.(type) {
	case *ast.SendStmt:
		return true
	case *ast.SelectStmt:
		return true
	case *ast.GoStmt:
		return false // handled separately
	case *ast.IfStmt:
		return any3(exprHasSync(v.Init)) || any3(exprHasSync(v.Cond))
	case *ast.ForStmt:
		return any3(exprHasSync(v.Init)) || any3(exprHasSync(v.Cond))
	case *ast.RangeStmt:
		return any3(exprHasSync(v.X))
	case *ast.SwitchStmt:
		return any3(exprHasSync(v.Init)) || any3(exprHasSync(v.Tag))
	case *ast.TypeSwitchStmt:
		return any3(exprHasSync(v.Init)) || any3(exprHasSync(v.Assign))
	case *ast.BlockStmt, *ast.LabeledStmt, *ast.CaseClause, *ast.CommClause:
		return false
	case *ast.DeferStmt:
		return false
	default:
		return any3(exprHasSync(s))
	}
}

func site(rel string, p token.Pos) string {
	return fmt.Sprintf("%s:%d", strings.TrimPrefix(rel, "pkg/"), fset.Position(p).Line)
}

func isLiteralish(e ast.Expr) bool {
	switch v := e.(type) {
	case *ast.BasicLit:
		return true
	case *ast.Ident:
		return v.Name == "true" || v.Name == "false" || v.Name == "nil"
	}
	return false
}

func recoverDefer() ast.Stmt {
	// defer func() { if r := recover(); r != nil { verifrt.GoPanic(r) } }()
	body := &ast.BlockStmt{List: []ast.Stmt{
		&ast.IfStmt{
			Init: &ast.AssignStmt{Lhs: []ast.Expr{ast.NewIdent("verifR")}, Tok: token.DEFINE,
				Rhs: []ast.Expr{&ast.CallExpr{Fun: ast.NewIdent("recover")}}},
			Cond: &ast.BinaryExpr{X: ast.NewIdent("verifR"), Op: token.NEQ, Y: ast.NewIdent("nil")},
			Body: &ast.BlockStmt{List: []ast.Stmt{&ast.ExprStmt{X: call("GoPanic", ast.NewIdent("verifR"))}}},
		},
	}}
	generated[body] = true
	return &ast.DeferStmt{Call: &ast.CallExpr{Fun: &ast.FuncLit{Type: &ast.FuncType{Params: &ast.FieldList{}}, Body: body}}}
}

func rewriteGo(g *ast.GoStmt, rel string) ast.Stmt {
	st := fmt.Sprintf("%s:%d", filepath.Base(rel), fset.Position(g.Pos()).Line)
	blk := &ast.BlockStmt{}
	callExpr := g.Call
	if callExpr.Ellipsis.IsValid() {
		blk.List = append(blk.List, &ast.ExprStmt{X: call("BeforeGo", strlit(st))}, g)
		generated[blk] = true
		generated[g] = true
		return blk
	}
	fn := ast.NewIdent("verifF")
	blk.List = append(blk.List, &ast.AssignStmt{Lhs: []ast.Expr{fn}, Tok: token.DEFINE, Rhs: []ast.Expr{callExpr.Fun}})
	newArgs := []ast.Expr{}
	lhs := []ast.Expr{}
	rhs := []ast.Expr{}
	for i, a := range callExpr.Args {
		if isLiteralish(a) {
			newArgs = append(newArgs, a)
			continue
		}
		id := ast.NewIdent(fmt.Sprintf("verifA%d", i))
		lhs = append(lhs, id)
		rhs = append(rhs, a)
		newArgs = append(newArgs, id)
	}
	if len(lhs) > 0 {
		blk.List = append(blk.List, &ast.AssignStmt{Lhs: lhs, Tok: token.DEFINE, Rhs: rhs})
	}
	tok := ast.NewIdent("verifTok")
	blk.List = append(blk.List, &ast.AssignStmt{Lhs: []ast.Expr{tok}, Tok: token.DEFINE, Rhs: []ast.Expr{call("BeforeGo", strlit(st))}})
	body := &ast.BlockStmt{List: []ast.Stmt{
		recoverDefer(),
		&ast.DeferStmt{Call: call("GoEnd")},
		&ast.ExprStmt{X: call("GoStart", tok)},
		&ast.ExprStmt{X: &ast.CallExpr{Fun: fn, Args: newArgs}},
	}}
	ng := &ast.GoStmt{Call: &ast.CallExpr{Fun: &ast.FuncLit{Type: &ast.FuncType{Params: &ast.FieldList{}}, Body: body}}}
	generated[ng] = true
	generated[body] = true
	generated[blk] = true
	blk.List = append(blk.List, ng)
	return blk
}

// ---- package-level maps (shared between goroutines unless proven otherwise)

// pkgMaps[dir][name] = true for package-level variables which are syntactically maps.
var pkgMaps = map[string]map[string]bool{}

// exported package-level maps by "pkgbase.Name", for accesses from other packages
var exportedMaps = map[string]bool{}
var mapSites int

func isMapTypeOrValue(t ast.Expr, v ast.Expr) bool {
	if _, ok := t.(*ast.MapType); ok {
		return true
	}
	switch x := v.(type) {
	case *ast.CompositeLit:
		_, ok := x.Type.(*ast.MapType)
		return ok
	case *ast.CallExpr:
		if id, ok := x.Fun.(*ast.Ident); ok && id.Name == "make" && len(x.Args) >= 1 {
			_, ok := x.Args[0].(*ast.MapType)
			return ok
		}
	}
	return false
}

func collectPkgMaps(f *ast.File, dir string) {
	for _, d := range f.Decls {
		gd, ok := d.(*ast.GenDecl)
		if !ok || gd.Tok != token.VAR {
			continue
		}
		for _, sp := range gd.Specs {
			vs := sp.(*ast.ValueSpec)
			for i, nm := range vs.Names {
				var val ast.Expr
				if i < len(vs.Values) {
					val = vs.Values[i]
				}
				if isMapTypeOrValue(vs.Type, val) {
					if pkgMaps[dir] == nil {
						pkgMaps[dir] = map[string]bool{}
					}
					pkgMaps[dir][nm.Name] = true
					if ast.IsExported(nm.Name) {
						exportedMaps[filepath.Base(dir)+"."+nm.Name] = true
					}
				}
			}
		}
	}
}

type mapAcc struct {
	expr  ast.Expr
	name  string
	write bool
}

// sharedMapExpr tells whether e denotes a package-level map of this package (by name) or an exported one of another.
func sharedMapExpr(e ast.Expr, dir string) (string, bool) {
	switch x := e.(type) {
	case *ast.Ident:
		if pkgMaps[dir][x.Name] {
			return filepath.Base(dir) + "." + x.Name, true
		}
	case *ast.SelectorExpr:
		if id, ok := x.X.(*ast.Ident); ok && exportedMaps[id.Name+"."+x.Sel.Name] {
			return id.Name + "." + x.Sel.Name, true
		}
	}
	return "", false
}

// stmtMapAccesses lists the accesses to shared maps made by the statement's own expressions (not by nested blocks).
func stmtMapAccesses(s ast.Stmt, dir string) []mapAcc {
	var out []mapAcc
	writes := map[ast.Expr]bool{}
	switch v := s.(type) {
	case *ast.AssignStmt:
		for _, l := range v.Lhs {
			if ie, ok := l.(*ast.IndexExpr); ok {
				writes[ie] = true
			}
		}
	case *ast.IncDecStmt:
		if ie, ok := v.X.(*ast.IndexExpr); ok {
			writes[ie] = true
		}
	case *ast.RangeStmt:
		if nm, ok := sharedMapExpr(v.X, dir); ok {
			out = append(out, mapAcc{v.X, nm, false})
		}
	case *ast.BlockStmt, *ast.LabeledStmt, *ast.CaseClause, *ast.CommClause, *ast.DeferStmt, *ast.GoStmt, *ast.SelectStmt:
		return nil
	}
	ast.Inspect(s, func(x ast.Node) bool {
		switch v := x.(type) {
		case *ast.FuncLit, *ast.BlockStmt:
			return false
		case *ast.IndexExpr:
			if nm, ok := sharedMapExpr(v.X, dir); ok {
				out = append(out, mapAcc{v.X, nm, writes[v]})
			}
		case *ast.CallExpr:
			if id, ok := v.Fun.(*ast.Ident); ok && id.Name == "delete" && len(v.Args) == 2 {
				if nm, ok := sharedMapExpr(v.Args[0], dir); ok {
					out = append(out, mapAcc{v.Args[0], nm, true})
				}
			}
		}
		return true
	})
	return out
}

func processList(list []ast.Stmt, rel string) []ast.Stmt {
	out := make([]ast.Stmt, 0, len(list))
	dir := filepath.Dir(rel)
	for _, s := range list {
		inner := s
		if ls, ok := s.(*ast.LabeledStmt); ok {
			inner = ls.Stmt
		}
		for _, ma := range stmtMapAccesses(inner, dir) {
			wr := "false"
			if ma.write {
				wr = "true"
			}
			mapSites++
			out = append(out, &ast.ExprStmt{X: call("MapAccess", ma.expr, strlit(ma.name), ast.NewIdent(wr), strlit(site(rel, inner.Pos())))})
		}
		_, _, hasLock := exprHasSync(inner)
		if g, ok := inner.(*ast.GoStmt); ok && !generated[g] {
			nsites++
			r := rewriteGo(g, rel)
			if ls, ok := s.(*ast.LabeledStmt); ok {
				ls.Stmt = r
				out = append(out, ls)
			} else {
				out = append(out, r)
			}
			continue
		}
		if stmtHasOtherSync(inner) && !stmtNeedsYield(inner) && !hasLock {
			out = append(out, &ast.ExprStmt{X: call("HBSync")})
			out = append(out, s)
			switch inner.(type) {
			case *ast.ExprStmt, *ast.AssignStmt, *ast.DeclStmt, *ast.IncDecStmt:
				out = append(out, &ast.ExprStmt{X: call("HBSync")})
			}
			continue
		}
		if stmtNeedsYield(inner) {
			nsites++
			y := &ast.ExprStmt{X: call("Yield", strlit(site(rel, inner.Pos())))}
			out = append(out, y, s)
			switch iv := inner.(type) {
			case *ast.SendStmt:
				out = append(out, &ast.ExprStmt{X: call("Yield", strlit(site(rel, inner.Pos())+"+"))})
			case *ast.ExprStmt, *ast.AssignStmt, *ast.DeclStmt:
				if r, _, _ := exprHasSync(iv); r {
					out = append(out, &ast.ExprStmt{X: call("Yield", strlit(site(rel, inner.Pos())+"+"))})
				}
			}
		} else {
			out = append(out, s)
		}
		if _, ok := inner.(*ast.ExprStmt); ok && hasLock {
			out = append(out, &ast.ExprStmt{X: call("Locked")})
		}
	}
	out2 := make([]ast.Stmt, 0, len(out))
	for _, s := range out {
		if es, ok := s.(*ast.ExprStmt); ok {
			if ce, ok := es.X.(*ast.CallExpr); ok {
				if se, ok := ce.Fun.(*ast.SelectorExpr); ok && len(ce.Args) == 0 && (se.Sel.Name == "Unlock" || se.Sel.Name == "RUnlock") {
					out2 = append(out2, &ast.ExprStmt{X: call("Unlocking")})
				}
			}
		}
		if ds, ok := s.(*ast.DeferStmt); ok {
			if se, ok := ds.Call.Fun.(*ast.SelectorExpr); ok && len(ds.Call.Args) == 0 && (se.Sel.Name == "Unlock" || se.Sel.Name == "RUnlock") {
				body := &ast.BlockStmt{List: []ast.Stmt{&ast.ExprStmt{X: call("Unlocking")}, &ast.ExprStmt{X: ds.Call}}}
				generated[body] = true
				s = &ast.DeferStmt{Call: &ast.CallExpr{Fun: &ast.FuncLit{Type: &ast.FuncType{Params: &ast.FieldList{}}, Body: body}}}
			}
		}
		out2 = append(out2, s)
	}
	return out2
}

type visitor struct{ rel string }

func (v visitor) Visit(n ast.Node) ast.Visitor {
	switch b := n.(type) {
	case *ast.BlockStmt:
		if generated[b] {
			return v
		}
		b.List = processList(b.List, v.rel)
	case *ast.CaseClause:
		b.Body = processList(b.Body, v.rel)
	case *ast.CommClause:
		b.Body = processList(b.Body, v.rel)
		if b.Comm != nil {
			b.Body = append([]ast.Stmt{&ast.ExprStmt{X: call("Yield", strlit(site(v.rel, b.Pos())+"+"))}}, b.Body...)
		}
	case *ast.ForStmt:
		if b.Body != nil {
			b.Body.List = append([]ast.Stmt{&ast.ExprStmt{X: call("Tick")}}, b.Body.List...)
		}
	case *ast.RangeStmt:
		if b.Body != nil {
			b.Body.List = append([]ast.Stmt{&ast.ExprStmt{X: call("Tick")}}, b.Body.List...)
		}
	}
	return v
}

// knobs: applied on the AST before the yield pass.
func applyKnobs(f *ast.File, rel string) {
	// const lruFileHandlerCapacity = 256  ->  var lruFileHandlerCapacity = verifrt.Knob("lru", 256)
	for _, d := range f.Decls {
		gd, ok := d.(*ast.GenDecl)
		if !ok || gd.Tok != token.CONST || len(gd.Specs) != 1 {
			continue
		}
		vs := gd.Specs[0].(*ast.ValueSpec)
		if len(vs.Names) == 1 && vs.Names[0].Name == "lruFileHandlerCapacity" && len(vs.Values) == 1 && vs.Type == nil {
			if bl, ok := vs.Values[0].(*ast.BasicLit); ok && bl.Kind == token.INT {
				gd.Tok = token.VAR
				vs.Values[0] = call("Knob", strlit("lru"), bl)
				knobsApplied["lru"]++
			}
		}
	}
	ast.Inspect(f, func(n ast.Node) bool {
		ce, ok := n.(*ast.CallExpr)
		if !ok || len(ce.Args) != 1 {
			return true
		}
		se, ok := ce.Fun.(*ast.SelectorExpr)
		if !ok {
			return true
		}
		x, ok := se.X.(*ast.Ident)
		if !ok || x.Name != "bufio" {
			return true
		}
		switch se.Sel.Name {
		case "NewReader":
			se.Sel = ast.NewIdent("NewReaderSize")
			ce.Args = append(ce.Args, call("Knob", strlit("bufr"), intlit(4096)))
			knobsApplied["bufr"]++
		case "NewWriter":
			se.Sel = ast.NewIdent("NewWriterSize")
			ce.Args = append(ce.Args, call("Knob", strlit("bufw"), intlit(4096)))
			knobsApplied["bufw"]++
		}
		return true
	})
}

func main() {
	if len(os.Args) < 3 {
		fmt.Fprintln(os.Stderr, "usage: instr <repo-root> <out-dir>")
		os.Exit(2)
	}
	root, _ := filepath.Abs(os.Args[1])
	outdir, _ := filepath.Abs(os.Args[2])
	replace := map[string]string{}
	total := 0
	var files []string
	for _, sub := range []string{"pkg", "cmd/mlr"} {
		filepath.Walk(filepath.Join(root, sub), func(p string, info os.FileInfo, err error) error {
			if err != nil || info.IsDir() || !strings.HasSuffix(p, ".go") || strings.HasSuffix(p, "_test.go") {
				return nil
			}
			files = append(files, p)
			return nil
		})
	}
	sort.Strings(files)
	for _, p := range files {
		rel, _ := filepath.Rel(root, p)
		info, _ := os.Stat(p)
		if strings.HasPrefix(rel, "pkg/parsing/") || strings.HasPrefix(rel, "pkg/terminals/") || info.Size() > 2<<20 || info.Size() == 0 {
			continue
		}
		src, _ := os.ReadFile(p)
		f0, err := parser.ParseFile(token.NewFileSet(), p, src, 0)
		if err != nil {
			fmt.Fprintln(os.Stderr, "instr: parse error", p, err)
			os.Exit(2)
		}
		collectPkgMaps(f0, filepath.Dir(rel))
	}
	for _, p := range files {
		rel, _ := filepath.Rel(root, p)
		info, _ := os.Stat(p)
		if strings.HasPrefix(rel, "pkg/parsing/") || strings.HasPrefix(rel, "pkg/terminals/") || info.Size() > 2<<20 || info.Size() == 0 {
			continue
		}
		src, _ := os.ReadFile(p)
		f, err := parser.ParseFile(fset, p, src, parser.ParseComments)
		if err != nil {
			fmt.Fprintln(os.Stderr, "instr: parse error", p, err)
			os.Exit(2)
		}
		before := nsites
		applyKnobs(f, rel)
		ast.Walk(visitor{rel}, f)
		var buf bytes.Buffer
		if err := format.Node(&buf, fset, f); err != nil {
			fmt.Fprintln(os.Stderr, "instr: format error", p, err)
			os.Exit(2)
		}
		s := buf.String()
		if !strings.Contains(s, "verifrt.") {
			continue
		}
		// add the import right after the package clause
		idx := strings.Index(s, "\npackage ")
		var pkgLineEnd int
		if strings.HasPrefix(s, "package ") {
			pkgLineEnd = strings.Index(s, "\n") + 1
		} else {
			pkgLineEnd = idx + 1 + strings.Index(s[idx+1:], "\n") + 1
		}
		s = s[:pkgLineEnd] + "\nimport verifrt \"verifsim/rt\"\n" + s[pkgLineEnd:]
		op := filepath.Join(outdir, rel)
		os.MkdirAll(filepath.Dir(op), 0755)
		old, _ := os.ReadFile(op)
		if string(old) != s {
			if err := os.WriteFile(op, []byte(s), 0644); err != nil {
				fmt.Fprintln(os.Stderr, "instr:", err)
				os.Exit(2)
			}
		}
		replace[p] = op
		total += nsites - before
	}
	js, _ := json.MarshalIndent(map[string]interface{}{"Replace": replace}, "", " ")
	if err := os.WriteFile(filepath.Join(outdir, "overlay.json"), js, 0644); err != nil {
		fmt.Fprintln(os.Stderr, "instr:", err)
		os.Exit(2)
	}
	nmaps := 0
	for _, m := range pkgMaps {
		nmaps += len(m)
	}
	fmt.Printf("instr: files=%d sync_sites=%d knobs=%v pkg_maps=%d map_access_sites=%d\n", len(replace), total, knobsApplied, nmaps, mapSites)
}
