#!/bin/sh
# mkwt.sh <name>: scratch worktree of /repo HEAD at /tmp/wt/<name> with the regenerated parser dropped in
# (marked assume-unchanged so that `git diff` does not show it).  Remove with: git -C /repo worktree remove --force /tmp/wt/<name>
set -e
n="$1"
mkdir -p /tmp/wt
git -C /repo worktree remove --force /tmp/wt/$n 2>/dev/null || true
git -C /repo worktree prune
git -C /repo worktree add -f --detach /tmp/wt/$n HEAD >/dev/null
cp /tmp/millerparser/parser.go /tmp/wt/$n/pkg/parsing/parser/parser.go
git -C /tmp/wt/$n update-index --assume-unchanged pkg/parsing/parser/parser.go
echo /tmp/wt/$n
