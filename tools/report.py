#!/usr/bin/env python3
"""Regenerates the generated parts of DESIGN.md: the findings list (from known_findings.json) and the sensitivity
table (from seeded/*/meta.json).  Text between <!-- BEGIN x --> and <!-- END x --> markers is replaced.

  tools/report.py            rewrite DESIGN.md in place
  tools/report.py --print    print the generated blocks
"""
import glob
import json
import os
import re
import sys
import textwrap

VERIF = os.path.dirname(os.path.dirname(os.path.abspath(__file__)))


def findings_block():
    d = json.load(open(os.path.join(VERIF, "known_findings.json")))
    fixed = [f for f in d["findings"] if f["status"] == "fixed"]
    known = [f for f in d["findings"] if f["status"] == "known"]
    out = []
    out.append("Repaired by `fix:` commits in `/repo` (%d; each a `fixed:` record in `known_findings.json`, none of them suppresses anything):\n" % len(fixed))
    for i, f in enumerate(fixed, 1):
        rec = f.get("record", "")
        rec = re.sub(r"^fixed: property=\S+ \S+ ", "", rec)
        out.append(textwrap.fill("%d. **%s, `%s`** — %s" % (i, f["property"], f.get("commit", "?"), rec), 100, subsequent_indent="   "))
    out.append("")
    out.append("Known findings (%d; not repaired, suppressed only by a narrow predicate; their reproducers are re-run by every check and reported as `KNOWN-FINDING:`):\n" % len(known))
    for i, f in enumerate(known, 1):
        out.append(textwrap.fill("%d. **%s, class `%s`, predicate `%s`** — %s Not fixed because: %s." % (
            i, f["property"], f["class"], f.get("predicate"), f["what"], f.get("why_not_fixed", "?")), 100, subsequent_indent="   "))
    return "\n".join(out) + "\n"


def sensitivity_block():
    rows = []
    for mp in sorted(glob.glob(os.path.join(VERIF, "seeded", "*", "meta.json"))):
        m = json.load(open(mp))
        sid = m["id"]
        prop = m["breaks_property"]
        conf = m.get("first_confirmation") or m.get("confirmation") or {}
        checks = m.get("checks") or {}
        caught = []
        for c, v in checks.items():
            if v.get("rc") == 1:
                caught.append("%s: %s" % (c, ", ".join(sorted(set(v.get("classes") or [])))))
        first = None
        for h in (m.get("history") or []):
            hc = h.get("checks") or {}
            if hc:
                first = any(v.get("rc") == 1 for v in hc.values())
                break
        if first is None:
            first = bool(caught)
        summ = m.get("summary") or ""
        now = "; ".join(caught) if caught else "**missed**"
        if m.get("superseded") and not caught:
            now = "n/a: " + m["superseded"].split(":")[0].split(" (")[0]
        firsts = "yes" if first else "**no**"
        if m.get("first_run_invalid"):
            firsts = "**no** (alarm came from a base defect)"
        rows.append((sid, prop, summ, "yes" if conf.get("confirmed") else "no", firsts, now))
    out = ["| id | breaks | change (what it needs to manifest) | confirmed | caught at first run | caught now by (violation classes) |", "|---|---|---|---|---|---|"]
    for r in rows:
        out.append("| %s | %s | %s | %s | %s | %s |" % r)
    n = len(rows)
    now = sum(1 for r in rows if r[5] != "**missed**" and not r[5].startswith("n/a"))
    gone = sum(1 for r in rows if r[5].startswith("n/a"))
    first = sum(1 for r in rows if r[4] == "yes")
    out.append("")
    out.append("%d confirmed variants; %d caught by the quick tier as it was when the variant was first run; now %d caught, %d missed, %d no longer applicable because a later fix in /repo neutralised them." % (n, first, now, n - now - gone, gone))
    return "\n".join(out) + "\n"


def main():
    blocks = {"FINDINGS": findings_block(), "SENSITIVITY": sensitivity_block()}
    if "--print" in sys.argv:
        for k, v in blocks.items():
            print("=====", k)
            print(v)
        return
    p = os.path.join(VERIF, "DESIGN.md")
    s = open(p).read()
    for k, v in blocks.items():
        a, b = "<!-- BEGIN %s -->" % k, "<!-- END %s -->" % k
        if a in s and b in s:
            s = s[:s.index(a) + len(a)] + "\n" + v + s[s.index(b):]
        else:
            sys.stderr.write("marker %s missing\n" % k)
    open(p, "w").write(s)


if __name__ == "__main__":
    main()
