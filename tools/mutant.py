#!/usr/bin/env python3
"""Confirm an independently written broken variant and run checks against it.

  tools/mutant.py <mutant-dir> <property> [--checks C04,C17] [--budget 75] [--no-confirm]

<mutant-dir> holds patch.diff and demo.sh.  Works in a scratch worktree of /repo (removed afterwards);
/repo itself is never touched.  Prints a JSON summary on the last line.
"""
import json
import os
import re
import shutil
import subprocess
import sys
import time

PARSER = "/tmp/millerparser/parser.go"
ENV = dict(os.environ, GOFLAGS="-mod=mod", GOPROXY="off", GOSUMDB="off", GOTOOLCHAIN="local", GOCACHE="/verif/build/gocache")
GO = "/opt/veriftools/go1.26.8/bin/go"


def sh(cmd, cwd=None, timeout=3600, env=None):
    p = subprocess.run(cmd, cwd=cwd, shell=isinstance(cmd, str), stdout=subprocess.PIPE, stderr=subprocess.STDOUT, text=True, timeout=timeout, env=env or ENV)
    return p.returncode, p.stdout


def test_set(wt):
    rc, out = sh([GO, "test", "-vet=off", "-count=1", "./pkg/..."], cwd=wt)
    return sorted(set(re.findall(r"^(ok|FAIL)\s+(\S+)", out, re.M)))


def build(wt, out):
    ov = wt + "-ov.json"
    with open(ov, "w") as f:
        json.dump({"Replace": {wt + "/pkg/parsing/parser/parser.go": PARSER}}, f)
    rc, o = sh([GO, "build", "-overlay", ov, "-o", out, "./cmd/mlr"], cwd=wt)
    os.remove(ov)
    return rc == 0, o


def main():
    d = os.path.abspath(sys.argv[1])
    prop = sys.argv[2]
    checks = [prop]
    budget = "75"
    confirm = True
    a = sys.argv[3:]
    while a:
        if a[0] == "--checks":
            checks = a[1].split(",")
            a = a[2:]
        elif a[0] == "--budget":
            budget = a[1]
            a = a[2:]
        elif a[0] == "--no-confirm":
            confirm = False
            a = a[1:]
        else:
            a = a[1:]
    tag = (os.path.basename(os.path.dirname(d)) + "-" + os.path.basename(d)).replace("-out", "")
    wt = "/tmp/mw/" + tag
    clean = "/tmp/mw/clean"
    os.makedirs("/tmp/mw", exist_ok=True)
    res = {"mutant": d, "property": prop}
    sh("git -C /repo worktree remove --force %s; git -C /repo worktree prune" % wt)
    shutil.rmtree(wt, ignore_errors=True)
    rc, o = sh("git -C /repo worktree add -f --detach %s HEAD" % wt)
    rc, o = sh(["git", "apply", "--3way", os.path.join(d, "patch.diff")], cwd=wt)
    if rc != 0:
        rc, o = sh(["git", "apply", os.path.join(d, "patch.diff")], cwd=wt)
    res["applies"] = rc == 0
    if rc != 0:
        res["apply_error"] = o[-500:]
        print(json.dumps(res))
        sh("git -C /repo worktree remove --force %s" % wt)
        return
    try:
        if confirm:
            head = sh("git -C /repo rev-parse HEAD")[1].strip()
            if not os.path.exists(clean + "/.head") or open(clean + "/.head").read() != head:
                sh("git -C /repo worktree remove --force %s; git -C /repo worktree prune" % clean)
                shutil.rmtree(clean, ignore_errors=True)
                sh("git -C /repo worktree add -f --detach %s HEAD" % clean)
                ok, o = build(clean, clean + "/mlr")
                base = test_set(clean)
                json.dump(base, open(clean + "/.tests.json", "w"))
                open(clean + "/.head", "w").write(head)
            base = [tuple(x) for x in json.load(open(clean + "/.tests.json"))]
            ok, o = build(wt, wt + "/mlr")
            res["builds"] = ok
            if not ok:
                res["build_error"] = o[-800:]
            res["tests_same"] = test_set(wt) == base
            demo = os.path.join(d, "demo.sh")
            t0 = time.time()
            try:
                rcm, om = sh(["bash", demo, wt + "/mlr"], cwd=d, timeout=900, env=dict(os.environ))
            except subprocess.TimeoutExpired:
                rcm, om = 124, "timeout"
            try:
                rcc, oc = sh(["bash", demo, clean + "/mlr"], cwd=d, timeout=900, env=dict(os.environ))
            except subprocess.TimeoutExpired:
                rcc, oc = 124, "timeout"
            res["demo_mutant_rc"] = rcm
            res["demo_clean_rc"] = rcc
            res["demo_s"] = round(time.time() - t0, 1)
            res["confirmed"] = bool(res["builds"] and res["tests_same"] and rcm not in (0, 77) and rcc == 0)
            for f in ("mlr",):
                try:
                    os.remove(os.path.join(wt, f))
                except OSError:
                    pass
        res["checks"] = {}
        for c in checks:
            outdir = "/tmp/mw/out-%s-%s" % (tag, c)
            shutil.rmtree(outdir, ignore_errors=True)
            env = dict(os.environ, VERIF_REPO=wt, VERIF_OUT_DIR=outdir, VERIF_BUDGET=budget, VERIF_SEED=os.environ.get("VERIF_SEED", "1"))
            t0 = time.time()
            rc, o = sh(["/verif/check", c, "quick"], cwd="/verif", env=env, timeout=7200)
            viol = re.findall(r"^VIOLATION .*$\n^  class=(\S+)", o, re.M)
            res["checks"][c] = {"rc": rc, "classes": viol, "wall_s": round(time.time() - t0, 1), "tail": o.strip().split("\n")[-1][:200]}
            if rc == 2:
                res["checks"][c]["error"] = o[-1500:]
    finally:
        sh("git -C /repo worktree remove --force %s; git -C /repo worktree prune" % wt)
        shutil.rmtree(wt, ignore_errors=True)
    print(json.dumps(res))


if __name__ == "__main__":
    main()
