#!/usr/bin/env python3
"""Confirm an independently written broken variant and run checks against it.

  tools/mutant.py <mutant-dir> <property> [--checks C04,C17] [--budget 75] [--no-confirm] [--no-regtest] [--seeds 1,2]
                  [--save <id>]

<mutant-dir> holds patch.diff, demo.sh (takes the path of an mlr binary; exit 0 = property held) and notes.md.
Works in a scratch worktree of /repo (tools/mkwt.sh; removed afterwards); /repo itself is never touched.
Confirmation = patch applies, builds, unit tests pass, regression corpus passes, demo exits 0 on the clean binary and
non-zero on the variant.  Then runs `./check <C> quick` with VERIF_REPO=<worktree> (evidence goes to a scratch dir).
With --save, writes /verif/seeded/<id>/ (patch.diff, demo.sh, notes.md, meta.json).  Prints a JSON summary on the last line.
"""
import json
import os
import re
import shutil
import subprocess
import sys
import time

ENV = dict(os.environ, GOFLAGS="-mod=mod", GOPROXY="off", GOSUMDB="off", GOTOOLCHAIN="local")
GO = "/opt/veriftools/go1.26.8/bin/go"
HERE = os.path.dirname(os.path.abspath(__file__))
CLEAN = "/tmp/wt/clean"


def sh(cmd, cwd=None, timeout=3600, env=None):
    p = subprocess.run(cmd, cwd=cwd, shell=isinstance(cmd, str), stdout=subprocess.PIPE, stderr=subprocess.STDOUT, text=True, timeout=timeout, env=env or ENV)
    return p.returncode, p.stdout


def unit_tests(wt):
    rc, out = sh([GO, "test", "-vet=off", "-count=1", "./pkg/...", "./cmd/mlr/..."], cwd=wt)
    return sorted(set(re.findall(r"^(ok|FAIL)\s+(\S+)", out, re.M))), out


def ensure_clean():
    import fcntl
    os.makedirs("/tmp/wt", exist_ok=True)
    with open("/tmp/wt/.clean.lock", "w") as lk:
        fcntl.flock(lk, fcntl.LOCK_EX)
        _ensure_clean()


def _ensure_clean():
    head = sh("git -C /repo rev-parse HEAD")[1].strip()
    if os.path.exists(CLEAN + "/.head") and open(CLEAN + "/.head").read() == head and os.path.exists(CLEAN + "/mlr"):
        return
    sh([HERE + "/mkwt.sh", "clean"])
    rc, o = sh([GO, "build", "-o", "mlr", "./cmd/mlr"], cwd=CLEAN)
    if rc != 0:
        raise SystemExit("clean build failed: " + o[-800:])
    base, _ = unit_tests(CLEAN)
    json.dump(base, open(CLEAN + "/.tests.json", "w"))
    open(CLEAN + "/.head", "w").write(head)


def main():
    d = os.path.abspath(sys.argv[1])
    prop = sys.argv[2]
    checks = [prop]
    budget = None  # None: the check runs with its registered budget
    confirm = True
    regtest = True
    seeds = ["1"]
    save = None
    a = sys.argv[3:]
    while a:
        if a[0] == "--checks":
            checks = a[1].split(",")
            a = a[2:]
        elif a[0] == "--budget":
            budget = a[1]
            a = a[2:]
        elif a[0] == "--seeds":
            seeds = a[1].split(",")
            a = a[2:]
        elif a[0] == "--save":
            save = a[1]
            a = a[2:]
        elif a[0] == "--no-confirm":
            confirm = False
            a = a[1:]
        elif a[0] == "--no-regtest":
            regtest = False
            a = a[1:]
        else:
            a = a[1:]
    tag = "x-" + os.path.basename(d)
    wt = "/tmp/wt/" + tag
    res = {"mutant": d, "property": prop}
    if not os.path.exists("/tmp/millerparser/parser.go"):
        raise SystemExit("need /tmp/millerparser/parser.go (cp /verif/build/gen/parser-*.go there)")
    ensure_clean()
    sh([HERE + "/mkwt.sh", tag])
    rc, o = sh(["git", "apply", os.path.join(d, "patch.diff")], cwd=wt)
    res["applies"] = rc == 0
    if rc != 0:
        res["apply_error"] = o[-500:]
        print(json.dumps(res))
        sh("git -C /repo worktree remove --force %s" % wt)
        return
    try:
        if confirm:
            base = [tuple(x) for x in json.load(open(CLEAN + "/.tests.json"))]
            rc, o = sh([GO, "build", "-o", "mlr", "./cmd/mlr"], cwd=wt)
            res["builds"] = rc == 0
            if rc != 0:
                res["build_error"] = o[-800:]
            got, out = unit_tests(wt)
            res["unit_tests_same"] = got == base and not any(x[0] == "FAIL" for x in got)
            if not res["unit_tests_same"]:
                res["unit_tests_out"] = out[-800:]
            if regtest and res["builds"]:
                rc, o = sh(["./mlr", "regtest", "test/cases"], cwd=wt, timeout=1800)
                res["regtest_pass"] = "PASS overall" in o
                if not res["regtest_pass"]:
                    res["regtest_tail"] = o[-600:]
            demo = os.path.join(d, "demo.sh")
            t0 = time.time()
            try:
                rcm, om = sh(["bash", demo, wt + "/mlr"], cwd=d, timeout=900, env=dict(os.environ))
            except subprocess.TimeoutExpired:
                rcm, om = 124, "timeout"
            try:
                rcc, oc = sh(["bash", demo, CLEAN + "/mlr"], cwd=d, timeout=900, env=dict(os.environ))
            except subprocess.TimeoutExpired:
                rcc, oc = 124, "timeout"
            res["demo_variant_rc"] = rcm
            res["demo_clean_rc"] = rcc
            res["demo_variant_tail"] = om[-300:]
            res["demo_s"] = round(time.time() - t0, 1)
            res["confirmed"] = bool(res["builds"] and res["unit_tests_same"] and res.get("regtest_pass", True) and rcm not in (0, 77) and rcc == 0)
            try:
                os.remove(os.path.join(wt, "mlr"))
            except OSError:
                pass
        res["checks"] = {}
        for c in checks:
            for seed in seeds:
                outdir = "/tmp/mw-out/%s-%s-%s" % (tag, c, seed)
                shutil.rmtree(outdir, ignore_errors=True)
                env = dict(os.environ, VERIF_REPO=wt, VERIF_OUT_DIR=outdir, VERIF_SEED=seed)
                if budget:
                    env["VERIF_BUDGET"] = budget
                t0 = time.time()
                rc, o = sh(["/verif/check", c, "quick"], cwd="/verif", env=env, timeout=7200)
                viol = re.findall(r"^VIOLATION .*$\n^  class=(\S+)", o, re.M)
                key = c if len(seeds) == 1 else "%s@%s" % (c, seed)
                res["checks"][key] = {"rc": rc, "classes": viol, "wall_s": round(time.time() - t0, 1), "tail": o.strip().split("\n")[-1][:200]}
                m = re.search(r"^  class=\S+ detail=(.*)$", o, re.M)
                if m:
                    res["checks"][key]["detail"] = m.group(1)[:600]
                if rc == 2:
                    res["checks"][key]["error"] = o[-1500:]
                shutil.rmtree(outdir, ignore_errors=True)
    finally:
        sh("git -C /repo worktree remove --force %s; git -C /repo worktree prune" % wt)
        shutil.rmtree(wt, ignore_errors=True)
    if save:
        sd = os.path.join("/verif/seeded", save)
        os.makedirs(sd, exist_ok=True)
        same = os.path.realpath(d) == os.path.realpath(sd)
        for f in ("patch.diff", "demo.sh", "notes.md"):
            if not same and os.path.exists(os.path.join(d, f)):
                shutil.copy(os.path.join(d, f), os.path.join(sd, f))
        for f in os.listdir(d):
            if not same and (f.endswith("_test.go") or f.endswith(".py")):
                shutil.copy(os.path.join(d, f), os.path.join(sd, f))
        meta = {"id": save, "breaks_property": prop, "repo_commit": sh("git -C /repo rev-parse HEAD")[1].strip(),
                "confirmation": {k: res.get(k) for k in ("applies", "builds", "unit_tests_same", "regtest_pass", "demo_clean_rc", "demo_variant_rc", "confirmed")},
                "what_ran": "tools/mutant.py: git apply in a scratch worktree, go1.26.8 build, go test ./pkg/... ./cmd/mlr/..., mlr regtest test/cases, demo.sh on clean and variant binaries, then ./check <C> quick with VERIF_REPO=<worktree>",
                "checks": res["checks"]}
        mp = os.path.join(sd, "meta.json")
        if os.path.exists(mp):
            old = json.load(open(mp))
            for k in ("needs_to_manifest", "summary", "superseded", "first_run_invalid", "rebased"):
                if k in old:
                    meta[k] = old[k]
            if not confirm and old.get("confirmation"):
                meta["confirmation"] = old["confirmation"]
                meta["repo_commit"] = old.get("repo_commit", meta["repo_commit"])
            meta["first_confirmation"] = old.get("first_confirmation") or old.get("confirmation")
            hist = old.get("history", [])
            hist.append({"verif_commit": old.get("verif_commit"), "checks": old.get("checks")})
            meta["history"] = hist
        if not meta.get("first_confirmation"):
            meta["first_confirmation"] = meta["confirmation"]
        meta["verif_commit"] = sh("git -C /verif rev-parse --short HEAD")[1].strip()
        json.dump(meta, open(mp, "w"), indent=1)
    print(json.dumps(res))


if __name__ == "__main__":
    main()
