"""Build step: parser regeneration, instrumentation, std overlay, worker binary.

Everything is derived from the *current* working tree of VERIF_REPO (default
/repo); nothing is written into it.  Exit status 2 (BuildError) on any trouble -
never a verdict.
"""
import hashlib
import json
import os
import subprocess
import sys
import time

VERIF = os.path.dirname(os.path.dirname(os.path.abspath(__file__)))
BUILD = os.path.join(VERIF, "build")
SIM = os.path.join(VERIF, "sim")
GO = "/opt/veriftools/go1.26.8/bin/go"
GOROOT_SRC = "/opt/veriftools/go1.26.8/src"


class BuildError(Exception):
    pass


def repo_root():
    return os.path.abspath(os.environ.get("VERIF_REPO", "/repo"))


def goenv():
    e = dict(os.environ)
    e.update(
        GOFLAGS="-mod=mod",
        GOPROXY="off",
        GOSUMDB="off",
        GOTOOLCHAIN="local",
        GOCACHE=os.path.join(BUILD, "gocache"),
        CGO_ENABLED="0",
    )
    e["PATH"] = "/opt/veriftools/go1.26.8/bin:" + e.get("PATH", "")
    e.pop("GOROOT", None)
    return e


def run(cmd, cwd=None, what=""):
    p = subprocess.run(cmd, cwd=cwd, env=goenv(), stdout=subprocess.PIPE, stderr=subprocess.STDOUT, text=True)
    if p.returncode != 0:
        raise BuildError("%s failed (%s):\n%s" % (what or cmd[0], " ".join(cmd), p.stdout[-6000:]))
    return p.stdout


def sha(path):
    h = hashlib.sha256()
    with open(path, "rb") as f:
        h.update(f.read())
    return h.hexdigest()


# --------------------------------------------------------------- std patches

def _sub1(src, anchor, repl, name):
    if src.count(anchor) != 1:
        raise BuildError("std patch anchor not unique in %s (%d): %r" % (name, src.count(anchor), anchor[:60]))
    return src.replace(anchor, repl)


OS_FILE_TAIL = r'''

// VerifFileHooks is the simulation seam for file I/O (nil in normal operation).
type VerifFileHooks struct {
	Read     func(f *File, b []byte) (int, error, bool)
	Write    func(f *File, b []byte) (int, error, bool)
	Close    func(f *File) error
	Path     func(op, name, name2 string, flag int) error
	Opened   func(f *File, name string, flag int)
	TempName func() string
	Piped    func(r, w *File, rfd, wfd int)
}

var VerifFileHook *VerifFileHooks

// VerifRawRead and VerifRawWrite bypass the hook.
func (f *File) VerifRawRead(b []byte) (int, error) {
	if err := f.checkValid("read"); err != nil {
		return 0, err
	}
	n, e := f.read(b)
	return n, f.wrapErr("read", e)
}

func (f *File) VerifRawWrite(b []byte) (n int, err error) {
	if err := f.checkValid("write"); err != nil {
		return 0, err
	}
	n, e := f.write(b)
	if n < 0 {
		n = 0
	}
	if n != len(b) {
		err = io.ErrShortWrite
	}
	epipecheck(f, e)
	if e != nil {
		err = f.wrapErr("write", e)
	}
	return n, err
}
'''


def std_patches():
    """Returns {original abs path: patched text}."""
    out = {}

    def load(rel):
        with open(os.path.join(GOROOT_SRC, rel)) as f:
            return f.read()

    # runtime/select.go
    s = load("runtime/select.go")
    s = _sub1(s, "j := cheaprandn(uint32(norder + 1))", "j := verifSelectRandn(uint32(norder + 1))", "select.go")
    s += r'''

var verifSelectRand func(goid uint64, n uint32) uint32

//go:linkname verifSetSelectRand
func verifSetSelectRand(f func(goid uint64, n uint32) uint32) { verifSelectRand = f }

func verifSelectRandn(n uint32) uint32 {
	if f := verifSelectRand; f != nil && n > 1 {
		return f(getg().goid, n) % n
	}
	return cheaprandn(n)
}

//go:linkname verifGoid
func verifGoid() uint64 { return getg().goid }
'''
    out["runtime/select.go"] = s

    # runtime/rand.go
    s = load("runtime/rand.go")
    s = _sub1(s, "\tglobalRand.state.Init(*seed)", "\tverifEnvSeed(seed)\n\tglobalRand.state.Init(*seed)", "rand.go")
    s = _sub1(s, "func maps_rand() uint64 {\n", "func maps_rand() uint64 {\n\tif verifRTSeed != 0 {\n\t\treturn verifRTSeed\n\t}\n", "rand.go")
    s += r'''

// verifRTSeed, when non-zero, makes map seeds and iteration offsets a constant of the process
// (simulation seam: map iteration order becomes a function of VERIF_RTSEED and map history).
var verifRTSeed uint64

func verifEnvSeed(seed *[32]byte) {
	const key = "VERIF_RTSEED="
	for i := int32(0); ; i++ {
		p := argv_index(argv, argc+1+i)
		if p == nil {
			return
		}
		match := true
		for j := 0; j < len(key); j++ {
			if *(*byte)(add(unsafe.Pointer(p), uintptr(j))) != key[j] {
				match = false
				break
			}
		}
		if !match {
			continue
		}
		for k := range seed {
			seed[k] = 0
		}
		var h uint64 = 1469598103934665603
		for j := 0; ; j++ {
			c := *(*byte)(add(unsafe.Pointer(p), uintptr(len(key)+j)))
			if c == 0 {
				break
			}
			seed[j%32] = seed[j%32]*31 + c
			h = (h ^ uint64(c)) * 1099511628211
		}
		seed[0] |= 1
		verifRTSeed = h | 1
		return
	}
}
'''
    out["runtime/rand.go"] = s

    # os/proc.go
    s = load("os/proc.go")
    s = _sub1(s, "func Exit(code int) {\n", "func Exit(code int) {\n\tif h := VerifExitHook; h != nil {\n\t\th(code)\n\t}\n", "proc.go")
    s += "\n// VerifExitHook, when set, is called by Exit before exiting (simulation seam).\nvar VerifExitHook func(code int)\n"
    out["os/proc.go"] = s

    # os/file.go
    s = load("os/file.go")
    s = _sub1(s, '\tn, e := f.read(b)\n\treturn n, f.wrapErr("read", e)\n}\n\n// ReadAt',
              '\tif h := VerifFileHook; h != nil && h.Read != nil {\n\t\tif n, err, ok := h.Read(f, b); ok {\n\t\t\treturn n, err\n\t\t}\n\t}\n'
              '\tn, e := f.read(b)\n\treturn n, f.wrapErr("read", e)\n}\n\n// ReadAt', "file.go Read")
    s = _sub1(s, 'func (f *File) Write(b []byte) (n int, err error) {\n\tif err := f.checkValid("write"); err != nil {\n\t\treturn 0, err\n\t}\n',
              'func (f *File) Write(b []byte) (n int, err error) {\n\tif err := f.checkValid("write"); err != nil {\n\t\treturn 0, err\n\t}\n'
              '\tif h := VerifFileHook; h != nil && h.Write != nil {\n\t\tif n, err, ok := h.Write(f, b); ok {\n\t\t\treturn n, err\n\t\t}\n\t}\n', "file.go Write")
    s = _sub1(s, '\tn, handled, e := f.readFrom(r)\n', '\tif VerifFileHook != nil {\n\t\treturn genericReadFrom(f, r)\n\t}\n\tn, handled, e := f.readFrom(r)\n', "file.go ReadFrom")
    s = _sub1(s, '\tn, handled, e := f.writeTo(w)\n', '\tif VerifFileHook != nil {\n\t\treturn genericWriteTo(f, w)\n\t}\n\tn, handled, e := f.writeTo(w)\n', "file.go WriteTo")
    s = _sub1(s, '\ttestlog.Open(name)\n\tf, err := openFileNolog(name, flag, perm)\n\tif err != nil {\n\t\treturn nil, err\n\t}\n\tf.appendMode = flag&O_APPEND != 0\n',
              '\ttestlog.Open(name)\n\tif h := VerifFileHook; h != nil && h.Path != nil {\n\t\tif err := h.Path("open", name, "", flag); err != nil {\n\t\t\treturn nil, err\n\t\t}\n\t}\n'
              '\tf, err := openFileNolog(name, flag, perm)\n\tif err != nil {\n\t\treturn nil, err\n\t}\n\tf.appendMode = flag&O_APPEND != 0\n'
              '\tif h := VerifFileHook; h != nil && h.Opened != nil {\n\t\th.Opened(f, name, flag)\n\t}\n', "file.go OpenFile")
    s = _sub1(s, 'func Rename(oldpath, newpath string) error {\n',
              'func Rename(oldpath, newpath string) error {\n\tif h := VerifFileHook; h != nil && h.Path != nil {\n\t\tif err := h.Path("rename", oldpath, newpath, 0); err != nil {\n\t\t\treturn err\n\t\t}\n\t}\n', "file.go Rename")
    s = _sub1(s, 'func Chmod(name string, mode FileMode) error { return chmod(name, mode) }',
              'func Chmod(name string, mode FileMode) error {\n\tif h := VerifFileHook; h != nil && h.Path != nil {\n\t\tif err := h.Path("chmod", name, "", 0); err != nil {\n\t\t\treturn err\n\t\t}\n\t}\n\treturn chmod(name, mode)\n}', "file.go Chmod")
    s = _sub1(s, 'func Mkdir(name string, perm FileMode) error {\n',
              'func Mkdir(name string, perm FileMode) error {\n\tif h := VerifFileHook; h != nil && h.Path != nil {\n\t\tif err := h.Path("mkdir", name, "", 0); err != nil {\n\t\t\treturn err\n\t\t}\n\t}\n', "file.go Mkdir")
    s += OS_FILE_TAIL
    out["os/file.go"] = s

    # os/file_posix.go
    s = load("os/file_posix.go")
    s = _sub1(s, 'func (f *File) Close() error {\n\tif f == nil {\n\t\treturn ErrInvalid\n\t}\n',
              'func (f *File) Close() error {\n\tif f == nil {\n\t\treturn ErrInvalid\n\t}\n'
              '\tif h := VerifFileHook; h != nil && h.Close != nil {\n\t\tif err := h.Close(f); err != nil {\n\t\t\t_ = f.file.close()\n\t\t\treturn err\n\t\t}\n\t}\n', "file_posix.go Close")
    out["os/file_posix.go"] = s

    # os/file_unix.go
    s = load("os/file_unix.go")
    s = _sub1(s, 'func Remove(name string) error {\n',
              'func Remove(name string) error {\n\tif h := VerifFileHook; h != nil && h.Path != nil {\n\t\tif err := h.Path("remove", name, "", 0); err != nil {\n\t\t\treturn err\n\t\t}\n\t}\n', "file_unix.go Remove")
    out["os/file_unix.go"] = s

    # os/stat.go
    s = load("os/stat.go")
    s = _sub1(s, 'func Stat(name string) (FileInfo, error) {\n',
              'func Stat(name string) (FileInfo, error) {\n\tif h := VerifFileHook; h != nil && h.Path != nil {\n\t\tif err := h.Path("stat", name, "", 0); err != nil {\n\t\t\treturn nil, err\n\t\t}\n\t}\n', "stat.go Stat")
    out["os/stat.go"] = s

    # os/tempfile.go
    s = load("os/tempfile.go")
    s = _sub1(s, 'func nextRandom() string {\n',
              'func nextRandom() string {\n\tif h := VerifFileHook; h != nil && h.TempName != nil {\n\t\treturn h.TempName()\n\t}\n', "tempfile.go")
    out["os/tempfile.go"] = s

    # os/pipe2_unix.go
    s = load("os/pipe2_unix.go")
    s = _sub1(s, '\treturn newFile(p[0], "|0", kindPipe, false), newFile(p[1], "|1", kindPipe, false), nil\n',
              '\tr, w = newFile(p[0], "|0", kindPipe, false), newFile(p[1], "|1", kindPipe, false)\n'
              '\tif h := VerifFileHook; h != nil && h.Piped != nil {\n\t\th.Piped(r, w, p[0], p[1])\n\t}\n\treturn r, w, nil\n', "pipe2_unix.go")
    out["os/pipe2_unix.go"] = s

    # os/exec.go
    s = load("os/exec.go")
    s = _sub1(s, 'func (p *Process) Wait() (*ProcessState, error) {\n',
              'func (p *Process) Wait() (*ProcessState, error) {\n\tif h := VerifWaitHook; h != nil {\n\t\th(p)\n\t}\n', "exec.go Wait")
    s += "\n// VerifWaitHook, when set, is called before a Process.Wait blocks (simulation seam).\nvar VerifWaitHook func(p *Process)\n"
    out["os/exec.go"] = s
    return out


# --------------------------------------------------------------- the build

def write_if_changed(path, text):
    try:
        with open(path) as f:
            if f.read() == text:
                return False
    except OSError:
        pass
    os.makedirs(os.path.dirname(path), exist_ok=True)
    with open(path + ".tmp", "w") as f:
        f.write(text)
    os.replace(path + ".tmp", path)
    return True


def ensure_parser(repo, log):
    """Returns {orig: replacement} for the generated parser if the tree's copy is empty."""
    target = os.path.join(repo, "pkg/parsing/parser/parser.go")
    if os.path.exists(target) and os.path.getsize(target) > 0:
        return {}
    bnf = os.path.join(repo, "pkg/parsing/mlr.bnf")
    h = sha(bnf)[:16]
    gen = os.path.join(BUILD, "gen")
    os.makedirs(gen, exist_ok=True)
    out = os.path.join(gen, "parser-%s.go" % h)
    if not os.path.exists(out):
        t0 = time.time()
        js = os.path.join(gen, "parser-%s.json" % h)
        run([GO, "run", "github.com/johnkerl/pgpg/go/generators/cmd/parsegen-tables", "-o", js, bnf], cwd=repo, what="parsegen-tables")
        tmp = out + ".tmp.go"
        run([GO, "run", "github.com/johnkerl/pgpg/go/generators/cmd/parsegen-code", "-o", tmp, "-package", "parser", "-type", "MlrParser", js], cwd=repo, what="parsegen-code")
        run([os.path.join(os.path.dirname(GO), "gofmt"), "-w", tmp], what="gofmt parser")
        os.replace(tmp, out)
        try:
            os.remove(js)
        except OSError:
            pass
        log("parser regenerated in %.1fs -> %s" % (time.time() - t0, out))
    return {target: out}


def build(log=lambda s: sys.stderr.write("[build] " + s + "\n")):
    """Builds build/simworker for the current tree. Returns path to the binary."""
    repo = repo_root()
    if not os.path.isdir(os.path.join(repo, "pkg")):
        raise BuildError("no Miller tree at %s" % repo)
    os.makedirs(BUILD, exist_ok=True)
    t0 = time.time()
    # go.mod / go.sum for the harness module
    with open(os.path.join(SIM, "go.mod")) as f:
        gomod = f.read()
    gomod = gomod.replace("=> /repo", "=> " + repo)
    # one module file per tree checked (sensitivity runs build several scratch trees side by side), one build at a time
    tag = hashlib.sha256(repo.encode()).hexdigest()[:8]
    moddir = os.path.join(BUILD, "mod-" + tag)
    os.makedirs(moddir, exist_ok=True)
    modfile = os.path.join(moddir, "go.mod")
    import fcntl
    lockf = open(os.path.join(BUILD, ".build.lock"), "w")
    fcntl.flock(lockf, fcntl.LOCK_EX)
    try:
        return _build_locked(repo, modfile, gomod, t0, log)
    finally:
        fcntl.flock(lockf, fcntl.LOCK_UN)
        lockf.close()


def _build_locked(repo, modfile, gomod, t0, log):
    write_if_changed(modfile, gomod)
    with open(os.path.join(repo, "go.sum")) as f:
        write_if_changed(os.path.join(os.path.dirname(modfile), "go.sum"), f.read())
    # tools
    instr = os.path.join(BUILD, "instr")
    src = os.path.join(SIM, "instr", "main.go")
    stamp = os.path.join(BUILD, "instr.sha")
    cur = sha(src)
    old = open(stamp).read() if os.path.exists(stamp) else ""
    if old != cur or not os.path.exists(instr):
        run([GO, "build", "-modfile=" + modfile, "-o", instr, "./instr"], cwd=SIM, what="build instr")
        with open(stamp, "w") as f:
            f.write(cur)
    replace = {}
    replace.update(ensure_parser(repo, log))
    # instrument
    ovdir = os.path.join(BUILD, "overlay", hashlib.sha256(repo.encode()).hexdigest()[:8])
    os.makedirs(ovdir, exist_ok=True)
    msg = run([instr, repo, ovdir], what="instrument")
    log(msg.strip())
    with open(os.path.join(ovdir, "overlay.json")) as f:
        replace.update(json.load(f)["Replace"])
    # std
    stddir = os.path.join(BUILD, "std")
    for rel, text in std_patches().items():
        p = os.path.join(stddir, rel)
        write_if_changed(p, text)
        replace[os.path.join(GOROOT_SRC, rel)] = p
    ovjson = os.path.join(ovdir, "full-overlay.json")
    write_if_changed(ovjson, json.dumps({"Replace": replace}, indent=0, sort_keys=True))
    binp = os.path.join(BUILD, "simworker-" + os.path.basename(ovdir))
    # compile next to the final name and rename: a check that is running with the previous binary keeps its inode
    tmpbin = "%s.tmp%d" % (binp, os.getpid())
    run([GO, "test", "-c", "-modfile=" + modfile, "-overlay", ovjson, "-o", tmpbin, "./worker"], cwd=SIM, what="compile worker")
    os.replace(tmpbin, binp)
    log("worker built in %.1fs: %s" % (time.time() - t0, binp))
    return binp


if __name__ == "__main__":
    try:
        print(build())
    except BuildError as e:
        sys.stderr.write("BUILD ERROR: %s\n" % e)
        sys.exit(2)
