"""C17 - failures are never silent: every fault gives non-zero exit and a diagnostic; exit 0 means complete."""
import gzip
import io
import json

import c04
import gen
from checklib import Verdict
from simlib import Rng, mkspec, random_sched, starve_each

PROPERTY = "C17"
LEVEL = "exploration"
BUDGET = {"quick": 80, "thorough": 1500}
MIN_CASES = {"quick": 1200}  # see checklib.Check: quick goes on to this many cases on a loaded machine (up to 3x its budget)
RULE = ("cases: a verb chain + inputs + one planned fault (missing/unopenable/unreadable input, malformed record at "
        "position p per format, DSL run-time failure at record p or in the end block at chain position q, inexpressible "
        "output, write/open/close failure on stdout or on a tee/split/redirect target, early-exiting pipe target, "
        "left-file faults of join), placed relative to batch boundaries from a pilot run; each case = fault-free control "
        "+ N simulated runs of the real entrypoint.Main() under seeded schedules (incl. starve-each/favor-each sweep over "
        "the goroutines of the pilot), batch sizes, chunkings. Non-trivial = scheduler had >=2 candidates at some step or "
        "a fault fired; distinct = distinct (case hash, trace hash).")
ASSUMPTIONS = [
    "a fault counts only if it actually fired (seam log) or is present in the input by construction",
    "R1: faults are placed in the necessarily-consumed region; chains with early-exit verbs get faults in the first record only",
    "R2/R3: on failing runs only exit class, termination and 'stderr names mlr' are compared",
    "real child processes (pipe targets) have uncontrolled timing; their runs are excluded from the determinism claim",
]
COMPONENTS = c04.COMPONENTS

# ---------------------------------------------------------------- fault builders


def dkvp_lines(rng, n):
    return gen.to_dkvp(gen.gen_records(rng, n)).encode()


def rect_records(rng, n):
    return gen.gen_records(rng, n, sparse=False, wide=False)


def fmt_text(fmt, recs):
    if fmt == "dkvp":
        return gen.to_dkvp(recs)
    if fmt in ("csv", "csvlite"):
        return gen.to_csv(recs)
    if fmt == "tsv":
        return gen.to_csv(recs).replace(",", "\t")
    if fmt == "json":
        return gen.to_json(recs)
    if fmt == "jsonl":
        return "".join(json.dumps({k: v for k, v in r}) + "\n" for r in recs)
    if fmt == "nidx":
        return "".join(" ".join(v if v != "" else "-" for _, v in r) + "\n" for r in recs)
    if fmt == "xtab":
        return "\n".join("".join("%s %s\n" % (k, v if v != "" else "-") for k, v in r) for r in recs)
    raise ValueError(fmt)


IFLAGS = {"dkvp": [], "csv": ["--icsv"], "csvlite": ["--icsvlite"], "tsv": ["--itsv"], "json": ["--ijson"], "jsonl": ["--ijsonl"],
          "nidx": ["--inidx", "--ifs", " "], "xtab": ["--ixtab"]}


def positions(n, batch):
    """Interesting record positions (0-based) relative to batch boundaries."""
    ps = {0, n - 1, n // 2}
    for k in (batch - 1, batch, batch + 1, 2 * batch - 1, 2 * batch):
        if 0 <= k < n:
            ps.add(k)
    return sorted(p for p in ps if 0 <= p < n)


def malform(rng, fmt, text, p):
    """Returns text with record p (0-based) made malformed, or None if the format cannot be malformed."""
    if fmt in ("csv", "csvlite", "tsv"):
        sep = "\t" if fmt == "tsv" else ","
        lines = text.split("\n")
        idx = p + 1  # header is line 0
        if idx >= len(lines) - 1:
            idx = len(lines) - 2
        if idx < 1:
            return None
        kind = rng.choice(["long", "short"] if fmt != "csv" else ["long", "short", "long", "open_quote", "bare_quote", "quote_then_text", "extra_open_quote", "extra_bare_quote"])
        if kind in ("open_quote", "bare_quote", "quote_then_text"):
            # RFC-4180 violations inside one field: an opening quote that is never closed (swallows the following
            # lines), a quote in the middle of an unquoted field, text after the closing quote
            parts = lines[idx].split(sep)
            k = rng.below(len(parts))
            parts[k] = {"open_quote": "\"" + parts[k] + "xy", "bare_quote": parts[k] + "x\"y", "quote_then_text": "\"" + parts[k] + "\"z"}[kind]
            lines[idx] = sep.join(parts)
        elif kind in ("extra_open_quote", "extra_bare_quote"):
            # the damage sits in a field beyond the header's length: what was parsed before it looks like a whole record
            lines[idx] = lines[idx] + sep + ("\"xy" if kind == "extra_open_quote" else "x\"y")
        elif kind == "long":
            lines[idx] = lines[idx] + sep + "extra" + sep + "more"
        else:
            parts = lines[idx].split(sep)
            if len(parts) < 3:
                return None
            lines[idx] = sep.join(parts[:-2])
        return "\n".join(lines)
    if fmt == "json":
        # records are one per line between the brackets
        lines = text.split("\n")
        idx = p + 1
        if idx >= len(lines) - 2:
            idx = len(lines) - 3
        if idx < 1:
            return None
        kind = rng.choice(["garbage", "truncate", "badtoken", "no_close_bracket", "no_close_brace", "no_close_bracket_nl"])
        if kind in ("no_close_bracket", "no_close_bracket_nl"):
            # the document stops where only the closing bracket of the list is missing (a writer that was killed)
            t = text.rstrip()
            return (t[:-1].rstrip() + ("\n" if kind.endswith("_nl") else "")) if t.endswith("]") else None
        if kind == "no_close_brace":
            t = text.rstrip()
            if t.endswith("]"):
                t = t[:-1].rstrip()
            return t[:-1] if t.endswith("}") else None
        if kind == "garbage":
            lines[idx] = lines[idx].replace("{", "{ xyz ", 1)
        elif kind == "badtoken":
            lines[idx] = lines[idx].replace(": ", ": @", 1)
        else:
            cut = lines[idx][:max(3, len(lines[idx]) // 2)]
            return "\n".join(lines[:idx] + [cut])
        return "\n".join(lines)
    if fmt == "jsonl":
        lines = text.split("\n")
        idx = min(p, len(lines) - 2)
        if idx < 0:
            return None
        if rng.chance(0.25):
            # the last object lacks only its closing brace
            t = text.rstrip()
            return t[:-1] + rng.choice(["", "\n"]) if t.endswith("}") else None
        lines[idx] = lines[idx].replace("{", "{ xyz ", 1) if rng.chance(0.5) else lines[idx][:len(lines[idx]) // 2]
        return "\n".join(lines)
    return None


DSL_FAIL = [
    # (program template with %d = 1-based NR of the failing record, verb, kind)
    ("NR == %d { $* = 3 }", "put", "returned"),
    ("NR == %d { int y = \"abc\" }", "put", "returned"),
    ("NR == %d { if (\"notbool\") { $q = 1 } }", "put", "returned"),
    ("func f(int i): str { return i } NR == %d { $c = f(1) }", "put", "returned"),
    ("NR == %d { $c = apply([1,2], func(a,b) { return 1 }) }", "put", "returned"),
    ("NR == %d { tee > \"/nonexistent-dir/x\", $* }", "put", "returned"),
    ("NR == %d { print > \"/nonexistent-dir/y\", \"hi\" }", "put", "returned"),
    ("NR == %d { $c = asserting_null($a) }", "put", "direct"),
    ("NR == %d { $c = asserting_int(\"x\") }", "put", "direct"),
    ("NR == %d && asserting_bool(1)", "filter", "direct"),
    ("NR == %d { call nosuch_unused() } subr nosuch_unused() { num z = \"abc\" }", "put", "returned"),
    # statements failing inside the body of a user-defined function (exit is direct)
    ("func f() { print > \"/nonexistent-dir/x\", \"y\"; return 1 } NR == %d { $c = f() }", "put", "direct"),
    ("func f(): str { tee > \"/nonexistent-dir/x\", $*; return \"s\" } NR == %d { $c = f() }", "put", "direct"),
    ("func f() { int y = \"abc\"; return y } NR == %d { $c = f() }", "put", "direct"),
    ("func g() { return 1 } func f() { if (\"notbool\") { return 2 } return g() } NR == %d { $c = f() }", "put", "direct"),
]
# statements that fail when executed, and the block structures they may sit in: the failure must come out of any nesting
FAILING_STMTS = ["int y = \"abc\"", "if (\"notbool\") { $q = 1 }", "tee > \"/nonexistent-dir/x\", $*", "print > \"/nonexistent-dir/y\", \"hi\"", "$* = 3",
                 "emit > \"/nonexistent-dir/z\", {\"a\": 1}", "dump > \"/nonexistent-dir/w\", {\"a\": 1}", "$c = asserting_int(\"x\")", "num z = \"abc\"",
                 "func_fails_here = asserting_null(1)" if False else "@v = asserting_null(1)", "ENV[1] = 2" if False else "str s = 1"]
FAILING_STMTS_NO_RECORD = [x for x in FAILING_STMTS if "$" not in x]
BLOCKS = ["%s", "for (k, v in {\"a\": 1, \"b\": 2}) { %s }", "for ((k1, k2), v in {\"a\": {\"b\": 1}}) { %s }", "for ((k1, k2, k3), v in {\"a\": {\"b\": {\"c\": 1}}}) { %s }",
          "for (e in [1, 2]) { %s }", "for (k in {\"a\": 1}) { %s }", "for (int i = 0; i < 2; i += 1) { %s }", "var n = 0; while (n < 2) { n += 1; %s }",
          "var n = 0; do { n += 1; %s } while (n < 2)", "if (true) { %s }", "if (false) { } elif (true) { %s }", "if (false) { } else { %s }",
          "for (k, v in {\"a\": 1}) { if (true) { %s } }", "for ((k1, k2), v in {\"a\": {\"b\": 1}}) { for (e in [1]) { %s } }", "if (true) { for ((k1, k2), v in {\"a\": {\"b\": 1}}) { %s } }",
          "call fails()", "for (e in [1]) { call fails() }", "var r = ffails()", "for ((k1, k2), v in {\"a\": {\"b\": 1}}) { var r = ffails() }"]


def nested_failure(r, no_record=False):
    """(prefix of definitions, statement) - a failing statement inside some block structure."""
    stmt = r.choice(FAILING_STMTS_NO_RECORD if no_record else FAILING_STMTS)
    blk = r.choice(BLOCKS)
    if "call fails()" in blk:
        return "subr fails() { %s } " % stmt, blk
    if "ffails()" in blk:
        return "func ffails() { %s; return 1 } " % stmt, blk
    return "", blk % stmt


DSL_FAIL_END = [
    ("end { int y = \"abc\" }", "put"),
    ("end { $c = asserting_int(\"x\") }", "put"),
    ("end { emit > \"/nonexistent-dir/z\", {\"a\": 1} }", "put"),
    ("end { if (\"notbool\") { print 1 } }", "put"),
]

NEUTRAL = [["cat"], ["cat", "-n"], ["put", "$k = NR"], ["sort", "-f", "a"], ["tac"], ["rename", "b,bb"], ["fill-empty"], ["regularize"],
           ["count-similar", "-g", "a"], ["unsparsify"], ["group-by", "a"], ["sec2gmt", "i"], ["put", "-q", "@r[NR] = $*; end { emit @r, \"NR\" }"]]


def case_stream(rng, tier):
    i = 0
    kinds = ["missing", "open_err", "read_err", "isdir", "malformed", "malformed", "dsl", "dsl", "dsl_end", "out_schema", "out_x",
             "stdout_write", "stdout_write", "gz_trunc", "gz_garbage", "join_left", "first_record_early_exit", "target_open", "target_write",
             "target_write", "target_close", "split_write", "redirect_write", "pipe_early_exit", "not_fired", "target_schema", "evicted_target_write", "two_missing", "multi_redirect_close", "prepipe_fail", "join_left", "prepipe_fail", "multi_redirect_close", "join_left", "dsl_parse"]
    import os
    if os.environ.get("VERIF_KINDS"):  # debugging aid: restrict the fault kinds
        kinds = [k for k in kinds if k in os.environ["VERIF_KINDS"].split(",")]
    while True:
        i += 1
        r = rng.fork("f", i)
        kind = kinds[(i - 1) % len(kinds)] if tier == "quick" else r.choice(kinds)
        c = build_case(r, kind, tier)
        if c is not None:
            yield c


NAMED_ONLY = ("dsl_parse", "multi_redirect_close", "evicted_target_write", "dsl", "dsl_end", "out_schema", "out_x", "join_left", "split_write", "redirect_write", "pipe_early_exit", "target_schema")


def build_case(r, kind, tier):
    fmt = r.choice(["dkvp", "csv", "json", "tsv", "jsonl", "csvlite", "nidx", "xtab"])
    if kind in NAMED_ONLY and fmt == "nidx":
        fmt = "dkvp"  # these programs refer to fields by name
    batch = r.choice([1, 2, 3, 5, 500])
    n = r.choice([1, 2, 4, 7, 11, 23])
    nfiles = r.choice([1, 1, 2, 3])
    j = r.below(nfiles)
    files, names = {}, []
    recs_by_file = []
    for k in range(nfiles):
        recs = rect_records(r, n if k == j else r.choice([0, 1, 3, n]))
        if k == j and not recs:
            recs = rect_records(r, 2)
        recs_by_file.append(recs)
        nm = "in%d.%s" % (k, fmt)
        files[nm] = fmt_text(fmt, recs)
        names.append(nm)
    nj = len(recs_by_file[j])
    nverb = r.randint(1, 3)
    verbs = [r.choice(NEUTRAL) for _ in range(nverb)]
    oflags = r.choice([[], ["--ojson"], ["--ocsv"], ["--oxtab"], ["--ojsonl"]])
    if "--ocsv" in oflags:
        verbs = verbs + [["unsparsify"]]
    faults = []
    must_fail = True
    expect = "fail"
    p = r.choice(positions(nj, batch)) if nj else 0
    case = {"kind": "fault", "fault_kind": kind, "batch": batch}
    if kind == "missing":
        names[j] = "no-such-file." + fmt
        del files["in%d.%s" % (j, fmt)]
    elif kind == "open_err":
        faults = [{"kind": "op_err", "op": "open", "path": names[j], "nth": 0, "errno": r.choice(["EACCES", "EMFILE", "EIO"])}]
    elif kind == "read_err":
        size = len(files[names[j]].encode())
        if size < 2:
            return None
        at = r.choice([0, 1, size // 2, size - 1, r.below(size)])
        faults = [{"kind": "read_err", "path": names[j], "at": at, "errno": r.choice(["EIO", "EIO", "EBADF"])}]
    elif kind == "isdir":
        del files[names[j]]
        names[j] = "adir"
        files["adir/placeholder"] = "x\n"
    elif kind == "malformed":
        if fmt in ("dkvp", "nidx"):
            fmt2 = r.choice(["csv", "json", "tsv", "jsonl", "csvlite"])
            return build_case(r.fork("again", fmt2), kind, tier) if r.chance(0.99) else None
        t = malform(r, fmt, files[names[j]], p)
        if t is None or t == files[names[j]]:
            return None
        files[names[j]] = t
    elif kind == "gz_trunc":
        raw = files[names[j]].encode() * 3
        z = gzip.compress(raw)
        cut = r.randint(max(11, len(z) // 3), len(z) - 3)
        del files[names[j]]
        names[j] = "in%d.%s.gz" % (j, fmt)
        files[names[j]] = z[:cut].decode("latin1")
        case["gz"] = True
    elif kind == "gz_garbage":
        # a complete gzip member followed by something that is not one: text, or a further member with a damaged header
        # and good data behind it (zero padding, which gzip(1) tolerates, is not used)
        raw = files[names[j]].encode()
        cut = raw.rfind(b"\n", 0, max(1, len(raw) // 2)) + 1
        first = gzip.compress(raw[:cut] if 0 < cut < len(raw) else raw, mtime=0)
        rest = gzip.compress(raw[cut:] if 0 < cut < len(raw) else raw, mtime=0)
        tail = r.choice([b"trailing text\n", b"\x00\x01garbage", b"\x1f\x8c" + rest[2:], b"\x1e\x8b" + rest[2:], rest[:3] + b"\xff" + rest[4:] + rest, b"x"])
        del files[names[j]]
        if nfiles > 1 or r.chance(0.5):
            names[j] = "in%d.%s.gz" % (j, fmt)
        else:
            names[j] = "in%d.bin" % j
            case["main_flags"] = ["--gzin"]
        files[names[j]] = (first + tail).decode("latin1")
        case["gz"] = True
    elif kind in ("dsl", "dsl_end"):
        q = r.below(len(verbs) + 1)
        if kind == "dsl":
            prog, verb, dk = r.choice(DSL_FAIL)
            if r.chance(0.5):
                defs, body = nested_failure(r)
                prog, verb, dk = defs + "NR == %d { " + body.replace("%", "%%") + " }", "put", "either"
            # NR counts across files: the failing record is record p of file j
            nr = sum(len(x) for x in recs_by_file[:j]) + p + 1
            # upstream verbs must be 1:1 streaming for NR to mean input position; simplest: put the failing verb first,
            # or after cat/rename/fill-empty only
            verbs = [v for v in verbs if v[0] in ("cat", "rename", "fill-empty", "regularize", "sec2gmt")] or [["cat"]]
            q = r.below(len(verbs) + 1)
            verbs.insert(q, [verb, prog % nr])
            case["dsl_kind"] = dk
        else:
            prog, verb = r.choice(DSL_FAIL_END)
            if r.chance(0.5):
                defs, body = nested_failure(r, no_record=True)
                prog = defs + r.choice(["end", "end", "begin"]) + " { " + body + " }"
            verbs.insert(q, [verb, prog])
        case["fail_pos"] = q
    elif kind == "dsl_parse":
        # a program that cannot be parsed or built, at any position in the chain, whatever the verb's flags
        prog = r.choice(["$y = $x +", "$y = = 1", "syntax error $$$", "if ($a) { $b = 1", "func f( { return 1 }", "$y = strlen($a, $b, $c)",
                         "end { $x = 1 }", "begin { @a = $b }", "return 1", "func f() { return 1 } func f() { return 2 }", "$y = \"unterminated", "unset 3",
                         "break", "$y = ${a", "for (k, v in $*) { $[k] = v "])
        q = r.below(len(verbs) + 1)
        verbs.insert(q, [r.choice(["put", "put", "filter"])] + r.choice([[], [], ["-q"], ["-X"], ["-v"], ["-v", "-X"], ["-S"], ["-x"] if False else ["-d"], ["-z"]]) + [prog])
        case["fail_pos"] = q
    elif kind == "out_schema":
        oflags = [r.choice(["--ocsv", "--otsv"])]
        nr = sum(len(x) for x in recs_by_file[:j]) + p + 1
        if nr == 1:
            nr = 2
            if sum(len(x) for x in recs_by_file) < 2:
                return None
        verbs = [["cat"], ["put", "NR == %d { unset $b; $zz = 1 }" % nr]]
    elif kind == "out_x":
        oflags = ["--ojson"]
        nr = sum(len(x) for x in recs_by_file[:j]) + p + 1
        verbs = [["put", "NR == %d { $c = strptime(\"x\", \"%%Y\") }" % nr]]
        case["main_flags"] = [r.choice(["-x", "--fail-on-data-error"])]
    elif kind == "stdout_write":
        faults = [{"kind": "write_err", "path": "__stdout__", "at": -1, "errno": r.choice(["ENOSPC", "EIO", "EDQUOT"]), "torn": r.chance(0.5)}]
        case["place"] = "stdout"
    elif kind == "not_fired":
        faults = [{"kind": "write_err", "path": "__stdout__", "at": 10 ** 9, "errno": "ENOSPC"}]
        expect = "ok"
        if r.chance(0.4):
            # "a run that exits 0 has ... flushed all of its output to every destination": the tee verb's file is complete
            # whatever stops early behind it
            verbs = r.choice([[["tee", "t.out"], ["head", "-n", "1"]], [["tee", "-a", "t.out"], ["put", "$z = 1"], ["head", "-n", "2"]],
                              [["cat"], ["tee", "t.out"], ["head", "-n", "1"], ["cat"]], [["tee", "t.out"], ["head", "-n", "1"], ["head", "-n", "1"]],
                              [["tee", "t.out"], ["nothing"]], [["tee", "t.out"], ["head", "-n", "1", "-g", "a"]]])
            if "--ocsv" in oflags:
                oflags = []
            files[names[j]] = fmt_text(fmt, rect_records(r, r.choice([4, 11, 23, 60])))
    elif kind == "join_left":
        lrecs = rect_records(r, r.choice([2, 5, 40]))
        sorted_mode = r.chance(0.55)
        tail_keys = sorted_mode and r.chance(0.6)
        if tail_keys:
            # left records whose key sorts after every right key: the merge reaches right-EOF with these still unread
            extra = rect_records(r, r.choice([1, 3, 8]))
            lrecs = lrecs + [[(k, "zzz" + str(v)) if k == "a" else (k, v) for k, v in rec] for rec in extra]
        left = fmt_text("dkvp", lrecs)
        files["left.dkvp"] = left
        sub = r.choice(["missing", "read_err", "read_err", "read_err", "open_err"])
        if sub == "missing":
            del files["left.dkvp"]
        elif sub == "read_err":
            faults = [{"kind": "read_err", "path": "left.dkvp", "at": r.below(max(1, len(left))), "errno": "EIO"}]
        else:
            faults = [{"kind": "op_err", "op": "open", "path": "left.dkvp", "nth": 0, "errno": "EACCES"}]
        verbs = [["join", "-j", "a"] + r.choice([["--ul"], ["--np"], ["--ur"], [], ["--np", "--ur"], ["--ul", "--ur"]]) + ["-i", "dkvp", "-f", "left.dkvp"]] + verbs[:1]
        if sorted_mode:
            verbs[0].insert(1, "-s")
            if faults and faults[0]["kind"] == "read_err" and r.chance(0.7):
                # sorted mode streams the left file: a fault near its end lies beyond where the right stream ends
                faults[0]["at"] = max(0, len(left) - 1 - r.below(max(1, len(left) // 4 if not tail_keys else 6)))
        # "a run that exits 0 has consumed all of its input": the left file is input, wherever the right stream ends
        case["must_fail_unfired"] = True
        if r.chance(0.3):
            for k in range(nfiles):
                files[names[k]] = fmt_text(fmt, [] if r.chance(0.5) else rect_records(r, 1))
    elif kind == "first_record_early_exit":
        verbs = verbs + [["head", "-n", "1"]]
        size = len(files[names[0]].encode())
        if fmt in ("json",):
            return None
        faults = [{"kind": "read_err", "path": names[0], "at": 0, "errno": "EIO"}]
    elif kind in ("target_open", "target_write", "target_close", "split_write", "redirect_write"):
        tfmt = r.choice([[], ["--ojson"], ["--ocsv"]])
        if kind == "split_write":
            verbs = [["split", "-g", "a", "--prefix", "sp"]]
            tpath = "sp_"
        elif kind == "redirect_write":
            stmt = r.choice(["tee > \"rd_\".$a.\".out\", $*", "emit > \"rd_\".$a.\".out\", $*", "print > \"rd_\".$a.\".out\", $a.\":\".$i",
                             "tee > \"rd_all.out\", $*", "dump > \"rd_all.out\", $*", "emit > \"rd_all.out\", mapsum($*, {\"nr\": NR})"])
            verbs = [["put", "-q", stmt]] + ([["cat"]] if r.chance(0.3) else [])
            tpath = "rd_"
            case["stmt"] = stmt.split(" ")[0]
        else:
            verbs = [r.choice(NEUTRAL[:3]), ["tee"] + r.choice([[], ["-a"]]) + ["tee_target.out"]] + verbs[:1]
            tpath = "tee_target.out"
        oflags = tfmt
        if "--ocsv" in oflags:
            verbs = [v for v in verbs if v[0] != "unsparsify"]
        if kind == "target_open":
            faults = [{"kind": "op_err", "op": "openw", "path": tpath, "nth": 0, "errno": r.choice(["EACCES", "ENOSPC", "EMFILE"])}]
        elif kind == "target_close":
            faults = [{"kind": "op_err", "op": "close", "path": tpath, "nth": 0, "errno": "EIO"}]
        else:
            faults = [{"kind": "write_err", "path": tpath, "at": -1, "errno": r.choice(["ENOSPC", "EIO"]), "torn": r.chance(0.5)}]
            case["place"] = tpath
        # enough records that buffered writers actually reach the file before end of stream sometimes
        if r.chance(0.5):
            big = rect_records(r, r.choice([200, 700]))
            files[names[j]] = fmt_text(fmt, big)
    elif kind == "target_schema":
        # inexpressible record on a redirected CSV/TSV target: same field count, different names
        nr = sum(len(x) for x in recs_by_file[:j]) + p + 1
        if nr == 1:
            nr = 2
            if sum(len(x) for x in recs_by_file) < 2:
                return None
        oflags = [r.choice(["--ocsv", "--otsv"])]
        which = r.choice(["tee_verb", "tee_stmt", "emit_stmt", "split"])
        mut = ["put", "NR == %d { unset $b; $zz = 1 }" % nr]
        if which == "tee_verb":
            verbs = [mut, ["tee", "tgt.out"], ["put", "-q", "true"]]
        elif which == "tee_stmt":
            verbs = [mut, ["put", "-q", "tee > \"tgt.out\", $*"]]
        elif which == "emit_stmt":
            verbs = [mut, ["put", "-q", "emit > \"tgt.out\", $*"]]
        else:
            verbs = [mut, ["split", "-n", "1000", "--prefix", "tgt"]]
    elif kind == "evicted_target_write":
        # a target that fails on write is evicted from the handle cache (knob lru) and never revisited:
        # the error surfaces only when the evicted handler is flushed and closed
        cap = r.choice([2, 3])
        seq = ["zz0"] * r.randint(1, 3) + ["zz%d" % (1 + (i % (cap + 2))) for i in range(r.randint(cap + 2, 20))]
        recs = [[("a", k), ("b", "x"), ("i", str(i)), ("x", "0.5"), ("y", "1")] for i, k in enumerate(seq)]
        files[names[j]] = fmt_text(fmt, recs)
        which = r.choice(["split", "tee_stmt", "print_stmt", "emit_stmt"])
        if which == "split":
            verbs = [["split", "-g", "a", "--prefix", "ev"]]
            tpath = "ev_zz0"
        elif which == "tee_stmt":
            verbs = [["put", "-q", "tee > \"ev_\".$a.\".out\", $*"]]
            tpath = "ev_zz0"
        elif which == "print_stmt":
            verbs = [["put", "-q", "print > \"ev_\".$a.\".out\", $i"]]
            tpath = "ev_zz0"
        else:
            verbs = [["put", "-q", "emit > \"ev_\".$a.\".out\", $*"]]
            tpath = "ev_zz0"
        oflags = r.choice([[], ["--ojson"], ["--ocsv"]])
        faults = [{"kind": "write_err", "path": tpath, "at": 0, "errno": r.choice(["ENOSPC", "EIO"]), "torn": False}]
        case["knobs"] = {"lru": cap}
        for k in range(nfiles):
            if k != j:
                files[names[k]] = fmt_text(fmt, [])
    elif kind == "multi_redirect_close":
        # several redirected statements in one put; little data, so the write error on one target surfaces only
        # when the targets are flushed and closed at end of stream - whichever statement it belongs to
        stmts = ["tee > \"mr_tee.out\", $*", "print > \"mr_print.out\", $i", "emit > \"mr_emit.out\", mapsum($*, {})",
                 "dump > \"mr_dump.out\", {\"i\": $i}", "printn > \"mr_printn.out\", $a"]
        r.shuffle(stmts)
        k = r.randint(2, 4)
        chosen = stmts[:k]
        victim = r.below(k)
        tpath = chosen[victim].split("\"")[1]
        verbs = [["put", "-q", "; ".join(chosen)]]
        if r.chance(0.3):
            verbs = [["put", "-q", "; ".join(chosen[:1])], ["put", "-q", "; ".join(chosen[1:])]] if victim >= 1 else verbs
        oflags = r.choice([[], ["--ojson"]])
        small = rect_records(r, r.choice([1, 3, 8]))
        for kk in range(nfiles):
            files[names[kk]] = fmt_text(fmt, small if kk == j else [])
        faults = [{"kind": "write_err", "path": tpath, "at": 0, "errno": r.choice(["ENOSPC", "EIO"]), "torn": False}]
    elif kind == "two_missing":
        # two unopenable inputs: the second error is posted while the first may still be pending
        names = ["nope1." + fmt] + names + ["nope2." + fmt]
    elif kind == "prepipe_fail":
        # the command producing the input fails (cannot be started, rejects the data, or ends with a non-zero status
        # after writing everything): the input could not be read properly, whatever did arrive
        which = r.choice(["false", "nosuch", "gunzip_plain", "exit3_after_all", "gunzip_truncated", "killed", "killed_term"])
        pre = {"false": ["--prepipe", "false"], "nosuch": ["--prepipe", "no-such-command-xyz"], "gunzip_plain": ["--prepipe", "gunzip"],
               "exit3_after_all": ["--prepipex", "sh -c 'cat \"$0\"; exit 3'"], "gunzip_truncated": ["--prepipe", "gunzip"],
               # the command dies from a signal after writing part of its output
               # (the command line is run by sh -c: $$ is that shell, Miller's direct child)
               "killed": ["--prepipex", "f() { head -c 9 \"$1\"; kill -9 $$; }; f"], "killed_term": ["--prepipex", "f() { cat \"$1\"; kill -15 $$; }; f"]}[which]
        if which == "gunzip_truncated":
            raw = files[names[j]].encode() * 40
            z = gzip.compress(raw)
            files[names[j]] = z[:r.randint(len(z) // 3, len(z) - 9)].decode("latin1")
        case["main_flags"] = pre
        case["children"] = True
        verbs = [v for v in verbs if v[0] != "unsparsify"] or [["cat"]]
    elif kind == "pipe_early_exit":
        # well beyond the capacity of a pipe (64 KiB): the writes must block until the command has exited, and then fail
        # with EPIPE, however late the (real, uncontrolled) child gets to run
        big = rect_records(r, r.choice([7000, 10000]))
        files[names[j]] = fmt_text(fmt, big)
        which = r.choice(["tee", "print", "emit", "split"])
        if which == "tee":
            verbs = [["tee", "-p", "true"], ["cat"]]
        elif which == "print":
            verbs = [["put", "-q", "print | \"true\", $a . $i . \"................................\""]]
        elif which == "emit":
            verbs = [["put", "-q", "emit | \"true\", $*"]]
        else:
            verbs = [["put", "-q", "tee | \"exit 0\", $*"]]
        case["children"] = True
    else:
        raise ValueError(kind)
    args = ["mlr"] + case.pop("main_flags", []) + IFLAGS[fmt] + oflags + gen.chain_args(verbs) + names
    case.update({"args": args, "files": files, "faults": faults, "expect": expect, "cseed": r.randint(1, 1 << 40),
                 "nconf": 4 if tier == "quick" else 8, "sweep": True if tier != "quick" else r.chance(0.5)})
    if kind == "pipe_early_exit":
        case.update({"nconf": 2, "sweep": False})  # long inputs: few runs
    return case


# ---------------------------------------------------------------- evaluation

def file_kwargs(case):
    return {"files": {k: v.encode("latin1") for k, v in case["files"].items()}}


def with_batch(args, batch, extra=None):
    return [args[0]] + (["--records-per-batch", str(batch)] if batch else []) + (extra or []) + list(args[1:])


def evaluate(case, chk):
    vd = Verdict()
    pool = chk.pool
    kw = file_kwargs(case)
    args = case["args"]
    faults = case.get("faults") or []
    if case.get("configs") is None:
        # pilot without the injected fault: byte counts for placement, goroutine names for the sweep
        pilot = pool.run1(mkspec(with_batch(args, case["batch"]), sched={"policy": "rtb", "seed": 1}, snapshot=True, log_ops=True,
                                 knobs=case.get("knobs"), **kw))
        vd.runs.append(pilot)
        if pilot.status in ("deadlock", "livelock", "panic") and not faults:
            judge_fault(case, vd, pilot, {"pilot": True}, fired=True)
        for f in faults:
            if f.get("at") == -1:
                # place inside the bytes actually written to that target in the pilot
                total = written_to(pilot, case["place"])
                if total <= 0:
                    vd.skipped = "no-bytes-to-fault"
                    return vd
                rr = Rng(case["cseed"], "place")
                f["at"] = rr.choice([0, 1, total // 2, max(0, total - 1), rr.below(total)])
        rng = Rng(case["cseed"], "cfg")
        cfgs = c04.gen_configs(rng, pilot.goroutines, case.get("nconf", 4), sweep=False, batches=[case["batch"], case["batch"], 1, 2, 3, None])
        if case.get("sweep"):
            names = pilot.goroutines
            for sc in starve_each(names, rng.randint(1, 1 << 30)):
                cfgs.append({"batch": case["batch"], "sched": sc, "rtseed": 1})
        for c in cfgs:
            c.pop("flags", None)
        case["configs"] = cfgs
    by_construction = not faults or bool(case.get("must_fail_unfired"))
    vd.notes["kind:" + str(case.get("fault_kind"))] = 1
    ref = None
    if case["expect"] == "ok":
        ref = pool.run1(mkspec(args, mode="staged", snapshot=True, **kw))
        vd.runs.append(ref)
    for cfg in case["configs"]:
        a2 = with_batch(args, cfg.get("batch"))
        kn = dict(cfg.get("knobs") or {})
        kn.update(case.get("knobs") or {})
        r = pool.run1(mkspec(a2, sched=cfg["sched"], knobs=kn or None, chunk=cfg.get("chunk"), rtseed=cfg.get("rtseed", 1),
                             faults=faults, snapshot=ref is not None, **kw))
        vd.runs.append(r)
        if ref is not None and ref.status == "exit" and ref.code == 0 and r.status == "exit" and r.code == 0 and not r.fired:
            # converse direction: exit 0 means all input consumed and all output flushed
            if r.stdout != ref.stdout or r.files != ref.files:
                vd.add("exit0-but-incomplete", fault_kind=case.get("fault_kind"), config=json.loads(json.dumps(cfg)),
                       ref_len=len(ref.stdout), got_len=len(r.stdout))
        if r.status == "child-stall":
            vd.skipped = "child-stall"
            continue
        fired = by_construction or bool(r.fired)
        judge_fault(case, vd, r, cfg, fired)
        if len(vd.violations) >= 2:
            break
    if case["expect"] == "ok" or case.get("control"):
        pass
    return vd


def written_to(pilot, place):
    total = 0
    for op in pilot.fsops:
        parts = op.split(" ")
        if parts[0] == "write" and len(parts) >= 3:
            name = parts[1]
            if (place == "stdout" and name == "__stdout__") or (place != "stdout" and place in name):
                total += int(parts[-1])
    return total


def judge_fault(case, vd, r, cfg, fired):
    cfgs = json.loads(json.dumps(cfg))
    fk = case.get("fault_kind")
    if r.status in ("deadlock", "livelock"):
        vd.add("hang-on-fault", fault_kind=fk, status=r.status, config=cfgs, blocked=r.blocked[:16], fired=r.fired[:3])
        return
    if r.status == "panic":
        vd.add("panic-on-fault", fault_kind=fk, config=cfgs, text=r.panic_text[-1200:])
        return
    if r.status != "exit":
        return
    if case["expect"] == "ok" or not fired:
        vd.notes["fault_not_fired_runs"] = vd.notes.get("fault_not_fired_runs", 0) + 1
        if r.code != 0 and not fired and case["expect"] != "ok":
            # may legitimately fail for another reason only if the fault is by construction; otherwise suspicious but not C17's
            return
        if case["expect"] == "ok" and r.code != 0:
            vd.add("fails-without-fault", fault_kind=fk, config=cfgs, code=r.code, stderr=r.stderr[:300].decode("utf-8", "replace"))
        return
    vd.notes["fault_fired_runs"] = vd.notes.get("fault_fired_runs", 0) + 1
    if r.code == 0:
        vd.add("silent-failure", fault_kind=fk, config=cfgs, fired=r.fired[:3], stdout_len=len(r.stdout),
               stderr=r.stderr[:300].decode("utf-8", "replace"))
    elif not r.stderr.strip():
        # R3: the property asks that the problem be named on stderr; it does not fix the wording (C18 does: "mlr:").
        # One maintained message has no "mlr" in it: "couldn't assign variable str function return value from value
        # error (error)", pinned by the regression case dsl-argpass-typedecl/0005
        vd.add("no-diagnostic", fault_kind=fk, config=cfgs, code=r.code, stderr=r.stderr[:300].decode("utf-8", "replace"))


def cases(rng, tier):
    return case_stream(rng, tier)


def sample_of(case, verdict):
    s = {"fault_kind": case.get("fault_kind"), "args": case.get("args"), "faults": case.get("faults"), "batch": case.get("batch")}
    s["runs"] = [{"policy": (r.spec.get("sched") or {}).get("policy"), "status": r.status, "code": r.code, "fired": r.fired[:2],
                  "stderr": r.stderr[:120].decode("utf-8", "replace"), "steps": r.steps} for r in verdict.runs[:5]]
    return s


def known_match(case, klass, detail, known):
    for kf in known:
        if kf.get("status") != "known" or kf.get("class") != klass:
            continue
        pred = kf.get("predicate")
        if pred and pred == case.get("fault_kind"):
            return kf["id"]
        if pred and pred.startswith("kind:") and case.get("fault_kind") in pred[5:].split(","):
            return kf["id"]
    return None


def shrink_candidates(case):
    cfgs = case.get("configs") or []
    if len(cfgs) > 1:
        for i in range(len(cfgs)):
            c = dict(case)
            c["configs"] = [cfgs[i]]
            yield c
    if len(cfgs) == 1:
        cfg = cfgs[0]
        for key in ("chunk", "knobs"):
            if key in cfg:
                c = dict(case)
                c2 = dict(cfg)
                del c2[key]
                c["configs"] = [c2]
                yield c
        sc = cfg.get("sched", {})
        for simpler in ({"policy": "rtb", "seed": 1}, {"policy": "first", "seed": 1}):
            if sc != simpler:
                c = dict(case)
                c2 = dict(cfg)
                c2["sched"] = simpler
                c["configs"] = [c2]
                yield c
