"""C01 (stream-facing facet) - format round trips under read chunking, refill boundaries, flush boundaries and batch cuts."""
import csv
import io
import json

import c04
from checklib import Verdict
from simlib import Rng, mkspec, random_sched

PROPERTY = "C01"
LEVEL = "exploration"
BUDGET = {"quick": 75, "thorough": 1500}
MIN_CASES = {"quick": 1200}  # see checklib.Check: quick goes on to this many cases on a loaded machine (up to 3x its budget)
RULE = ("cases: a record list inside the written-down representable domain of a format (csv, csvlite with schema blocks, tsv, "
        "json, jsonl, dkvp, nidx, xtab, pprint, barred pprint, markdown, usv, asv) x option variant (quote-all, CRLF, custom and "
        "multi-char separators, headerless/implicit header, BOM). Per case: a writer run (JSON in -> fmt out) and reader "
        "runs (fmt in -> JSON out with -S) of the real pipeline under read chunking 1..n on file and simulated stdin "
        "(arbitrary arrival), bufio sizes 16..4096 (refill and flush boundaries inside fields, quotes, multi-byte separators "
        "and UTF-8 sequences), batch sizes and seeded schedules; plus `mlr --fmt cat` fixed point, independent parsers "
        "(Python csv/json, an IANA-TSV splitter) on Miller's text and Miller on the text of independent writers in several "
        "legal quoting styles. Non-trivial = scheduler had >=2 candidates; distinct = distinct (case hash, trace hash).")
ASSUMPTIONS = [
    "facet claim: what depends on how the byte stream is cut (chunking, refills, flushes, batch cuts); a content-only defect is found only if sampled",
    "conservative per-format domains (R8), e.g. no CR inside CSV values, non-empty pprint/xtab/nidx values, unique non-empty field names",
]
COMPONENTS = c04.COMPONENTS

RICH = ["pan", "a b", "x,y", "q\"r", "two\nlines", "x\n\ny", "\n", "end\n", "", "0x1F", "-1.5e3", "007", "long" * 30, "\u00fc\u00f1\u00ee\u4e2d\u6587", "tab\there", "semi;colon", "eq=ual", "pipe|bar", "#hash",
        "back\\slash", "  lead", "trail  ", "\"", "\"\"", ",", "a\"b\"c", "{json}", "[1,2]", "true", "\u2603 snow", "e\u0301", "-", "=", "x" * 5000]
PLAIN = ["pan", "eks", "wye", "zee", "0x1F", "-1.5e3", "007", "long" * 30, "\u00fc\u00f1\u00ee\u4e2d\u6587", "hat-1", "a.b", "Z_9", "\u2603snow", "x" * 300]


def names(r, n):
    base = ["a", "b", "c", "d", "e", "f", "g", "h", "i", "j", "k", "l", "m", "n"]
    if r.chance(0.5):
        # names of different lengths: aligned formats (xtab, pprint) pad with repeated separators
        base = ["a", "bbb", "cc", "d", "eeeee", "ff", "g", "hhhh", "i", "jj", "kkk", "l", "mm", "n"]
    return base[:n]


RICH_KEYS = ["a b", "k\\b", "t\tb", "q\"q", "x,y", "\u00fc\u00f1", "a=b", "#k", "-", "nl\nk", "back\\", "\\t", "sp ", " lead", "semi;k", "1", "0x1F"]


def gen_recs(r, fmt):
    n = r.choice([1, 2, 3, 7, 20, 60])
    nf = r.choice([1, 2, 3, 5, 13])
    ks = names(r, nf)
    rich = fmt in ("csv", "json", "jsonl", "tsv")
    if rich and r.chance(0.25):
        # field names from the same content space as values (the header line is encoded and decoded like any other)
        ks = r.sample(RICH_KEYS, min(nf, len(RICH_KEYS))) + ks[len(RICH_KEYS):]
    recs = []
    for i in range(n):
        rec = []
        for k in ks:
            if rich:
                v = r.choice(RICH)
                if fmt == "tsv" and r.chance(0.2):
                    v = r.choice(["a\tb", "cr\rhere", "nl\nhere", "bs\\t", "\\", "\t"])
            else:
                v = r.choice(PLAIN)
                if fmt in ("xtab", "markdown", "usv", "asv", "csvlite") and r.chance(0.2):
                    v = r.choice(["a b", "x y z"])
                if fmt in ("pprint", "xtab", "csvlite", "dkvp", "usv", "asv") and r.chance(0.1):
                    v = ""  # empty cells: blanks in barred pprint and markdown, "-" in plain pprint, nothing after the key in xtab
                if fmt in ("pprint", "nidx", "xtab", "dkvp", "csvlite") and r.chance(0.12):
                    # white space other than U+0020 is data in the space-separated formats
                    v = r.choice(["a\u00a0b", "x\u3000y", "t\tt", "em\u2003sp", "\u00a0lead", "trail\u3000", "v\u000bt", "f\u000cf", "nel\u0085x", "ls\u2028x"])
            rec.append((k, v))
        recs.append(rec)
    if fmt in ("dkvp", "nidx", "csvlite", "tsv") and r.chance(0.5):
        # pieces that end in the last byte of a multi-character IRS without being the IRS (never a separator itself)
        recs = [[(k, r.choice([v, "y", "ay", "b", "ab", "x", "a.b"]) if r.chance(0.4) else v) for k, v in rec] for rec in recs]
    if fmt in ("csvlite", "tsv", "usv", "asv", "markdown", "pprint", "xtab", "dkvp"):
        # R8: a record whose only value is empty is written as an empty line, which these formats read as a separator
        recs = [[(k, v if v != "" or len(rec) > 1 else "nonempty") for k, v in rec] for rec in recs]
    if fmt in ("csvlite", "json", "jsonl", "dkvp", "xtab", "pprint") and r.chance(0.2) and n > 1 and nf > 1:
        # the same field names in another order are another schema (new header block in csvlite / pprint)
        for i in range(1, n):
            if r.chance(0.4):
                rec = list(recs[i])
                r.shuffle(rec)
                recs[i] = rec
    if fmt in ("csvlite", "json", "jsonl", "dkvp", "xtab", "pprint") and r.chance(0.3) and n > 2:
        # heterogeneous: drop the last field from the second half (csvlite schema blocks)
        recs = recs[:n // 2] + [rec[:-1] if len(rec) > 1 else rec for rec in recs[n // 2:]]
        recs = [[(k, v if v != "" or len(rec) > 1 else "nonempty") for k, v in rec] for rec in recs]
    return recs


VARIANTS = {
    "csv": [([], []), (["--quote-all"], []), (["--ors", "crlf"], []), (["--ofs", ";"], ["--ifs", ";"]),
            (["--ofs", "tab"], ["--ifs", "tab"]), (["--headerless-csv-output"], ["--implicit-csv-header"]), (["--ofs", "|", "--quote-all"], ["--ifs", "|"]),
            (["--quote-all", "--ors", "crlf"], [])],
    "csvlite": [([], []), (["--headerless-csv-output", "--ors", "xy"], ["--implicit-csv-header", "--irs", "xy"]), (["--headerless-csv-output"], ["--implicit-csv-header"]),
                (["--ors", "aab"], ["--irs", "aab"]), (["--ofs", ";"], ["--ifs", ";"]), (["--ofs", ";;"], ["--ifs", ";;"]), (["--ofs", "\u2192"], ["--ifs", "\u2192"])],
    "tsv": [([], []), (["--ors", "crlf"], []), (["--headerless-tsv-output"], ["--implicit-tsv-header"])],
    "json": [([], []), (["--jvstack"], []), (["--no-jvstack"], []), (["--jlistwrap"], [])],
    "jsonl": [([], [])],
    "dkvp": [([], []), (["--ofs", ";", "--ops", ":"], ["--ifs", ";", "--ips", ":"]), (["--ofs", ";;", "--ops", "::"], ["--ifs", ";;", "--ips", "::"]),
             (["--ofs", "\u2192", "--ops", "\u21d2"], ["--ifs", "\u2192", "--ips", "\u21d2"]), (["--ors", "\u2192\u2192"], ["--irs", "\u2192\u2192"]),
             (["--ors", ";\n"], ["--irs", ";\n"]), (["--ors", ";;"], ["--irs", ";;"]), (["--ors", "xy"], ["--irs", "xy"]), (["--ors", "aab"], ["--irs", "aab"])],
    "nidx": [(["--ofs", " "], ["--ifs", " "]), (["--ofs", ","], ["--ifs", ","]), (["--ofs", "\u2192"], ["--ifs", "\u2192"]), (["--ofs", " ", "--ors", "||"], ["--ifs", " ", "--irs", "||"])],
    "xtab": [([], []), (["--ops", ":"], ["--ips", ":"]), (["--ops", "\u2192"], ["--ips", "\u2192"]), (["--ops", ": "], ["--ips", ": "]), (["--ops", "::"], ["--ips", "::"])],
    "pprint": [([], []), (["--barred"], ["--barred-input"]), (["--right"], [])],
    "markdown": [([], [])],
    "usv": [([], [])],
    "asv": [([], [])],
}
FLAG = {"csv": "csv", "csvlite": "csvlite", "tsv": "tsv", "json": "json", "jsonl": "jsonl", "dkvp": "dkvp", "nidx": "nidx", "xtab": "xtab", "pprint": "pprint",
        "markdown": "md", "usv": "usv", "asv": "asv"}


def build_case(r, tier):
    fmt = r.choice(["csv", "csv", "csv", "csvlite", "tsv", "tsv", "json", "json", "jsonl", "dkvp", "nidx", "xtab", "pprint", "markdown", "usv", "asv"])
    recs = gen_recs(r, fmt)
    wopts, ropts = r.choice(VARIANTS[fmt])
    if fmt == "csv" and "--quote-all" not in wopts and all(len(rec) == 1 for rec in recs):
        # R8: a single-column empty value is written as an empty line unless everything is quoted
        recs = [[(k, v if v != "" else "nonempty") for k, v in rec] for rec in recs]
    if fmt == "pprint" and "--barred" in wopts:
        # R8: the barred reader trims padded cells with strings.TrimSpace, so values beginning or ending in (any Unicode)
        # white space are outside the domain of that variant
        recs = [[(k, (v.strip() or "v") if v != "" else "") for k, v in rec] for rec in recs]
    if (fmt == "pprint" or (fmt == "csvlite" and "--ofs" in wopts)) and len(recs) > 1 and r.chance(0.25):
        # two schemas of the same width whose names differ only in where the commas are: another schema all the same
        # (only where a comma in a name is representable: not with csvlite's default separator)
        nf = max(2, min(len(recs[0]), 4))
        k1 = ["a,b", "c"] + ["f%d" % i for i in range(nf - 2)]
        k2 = ["a", "b,c"] + ["f%d" % i for i in range(nf - 2)]
        cut = r.randint(1, len(recs) - 1)
        vals = [[(v.strip() or "v") if v.strip() != v or v == "" else v for _, v in rec][:nf] for rec in recs]
        vals = [vs + ["w"] * (nf - len(vs)) for vs in vals]
        recs = [list(zip(k1 if i < cut else k2, vs)) for i, vs in enumerate(vals)]
        if r.chance(0.3) and len(recs) > 2:
            recs.append(list(zip(k1, vals[0])))
    crlf_embedded = False
    if fmt == "csv" and "crlf" in wopts:
        # Go-csv semantics kept by Miller: with CRLF line ends an embedded LF is written as CRLF too, and read back as LF.
        # Miller's own round trip holds; an independent reader sees CRLF inside the cell (R8: that comparison is skipped)
        crlf_embedded = any("\n" in k or "\n" in v for rec in recs for k, v in rec)
    return {"kind": "roundtrip", "crlf_embedded": crlf_embedded, "fmt": fmt, "recs": recs, "wopts": wopts, "ropts": ropts, "cseed": r.randint(1, 1 << 40), "bom": fmt in ("csv", "csvlite") and r.chance(0.2),
            "nconf": 3 if tier == "quick" else 6}


def in_json(recs):
    return ("[\n" + ",\n".join("{" + ", ".join("%s: %s" % (json.dumps(k), json.dumps(v)) for k, v in rec) + "}" for rec in recs) + "\n]\n").encode()


def stream_cfg(rng, data, allow_stdin=True):
    c = {"sched": random_sched(rng, None), "batch": rng.choice([None, 1, 2, 3, 7]), "rtseed": rng.randint(1, 1 << 30)}
    if rng.chance(0.75):
        c["chunk"] = {"max": rng.choice([1, 1, 2, 3, 5, 7, 13, 64, 1000]), "mode": rng.choice(["fixed", "random"]), "seed": rng.randint(1, 1 << 30)}
    if rng.chance(0.6):
        c["knobs"] = {"bufr": rng.choice([16, 16, 17, 31, 64, 4096]), "bufw": rng.choice([16, 17, 64, 4096])}
    if rng.chance(0.3):
        c["strip_final"] = True  # the last record arrives without its terminator (EOF right after the last byte of data)
    if allow_stdin and rng.chance(0.35):
        c["stdin"] = True
        if rng.chance(0.6) and data:
            arr, pos = [], 0
            while pos < len(data):
                pos = min(len(data), pos + rng.randint(1, max(2, len(data) // 5)))
                arr.append(pos)
            c["arrivals"] = arr
    return c


def run_reader(chk, vd, fmtflag, ropts, data, cfg, extra=()):
    args = ["mlr"] + (["--records-per-batch", str(cfg["batch"])] if cfg.get("batch") else []) + ["--i" + fmtflag] + list(ropts) + ["--ojson", "-S"] + list(extra) + ["cat"]
    kw = {}
    if cfg.get("stdin"):
        kw["stdin"], kw["arrivals"] = data, cfg.get("arrivals")
    else:
        args.append("t.dat")
        kw["files"] = {"t.dat": data}
    r = chk.pool.run1(mkspec(args, sched=cfg["sched"], chunk=cfg.get("chunk"), knobs=cfg.get("knobs"), rtseed=cfg.get("rtseed", 1), **kw))
    vd.runs.append(r)
    return r


def expect_values(case):
    """What the reader must give back: list of list of (name, value-as-string)."""
    recs = case["recs"]
    fmt = case["fmt"]
    out = []
    for rec in recs:
        row = []
        for i, (k, v) in enumerate(rec):
            name = k
            if fmt == "nidx" or "--implicit-csv-header" in case["ropts"] or "--implicit-tsv-header" in case["ropts"]:
                name = str(i + 1)
            if fmt == "nidx" and v == "":
                v = "-"
            row.append((name, v))
        out.append(row)
    return out


def parse_out(b):
    s = b.decode("utf-8", "replace").strip()
    if not s:
        return []
    objs = json.loads(s, object_pairs_hook=list)
    return [[(k, v if isinstance(v, str) else json.dumps(v)) for k, v in o] for o in objs]


def bad(vd, r, what, cfg, **kw):
    if r.status != "exit":
        vd.add("no-termination" if r.status in ("deadlock", "livelock") else r.status, where=what, config=json.loads(json.dumps(cfg)), blocked=r.blocked[:10], text=r.panic_text[-600:], **kw)
        return True
    if r.code != 0:
        vd.add("roundtrip-fails", where=what, config=json.loads(json.dumps(cfg)), stderr=r.stderr[:300].decode("utf-8", "replace"), **kw)
        return True
    return False


def evaluate(case, chk):
    vd = Verdict()
    fmt = case["fmt"]
    ff = FLAG[fmt]
    recs = case["recs"]
    rng = Rng(case["cseed"], "cfg")
    if case.get("configs") is None:
        case["configs"] = [stream_cfg(rng, b"x" * 200) for _ in range(case["nconf"])]
        case["wcfg"] = stream_cfg(rng, b"", allow_stdin=False)
    wcfg = case["wcfg"]
    # writer run
    wargs = ["mlr"] + (["--records-per-batch", str(wcfg["batch"])] if wcfg.get("batch") else []) + ["--ijson", "--o" + ff] + case["wopts"] + ["cat", "in.json"]
    w = chk.pool.run1(mkspec(wargs, sched=wcfg["sched"], knobs=wcfg.get("knobs"), chunk=wcfg.get("chunk"), rtseed=wcfg.get("rtseed", 1), files={"in.json": in_json(recs)}))
    vd.runs.append(w)
    if bad(vd, w, "writer", wcfg, fmt=fmt, wopts=case["wopts"]):
        return vd
    text = w.stdout
    want = expect_values(case)
    # writer output must not depend on flush boundaries: compare with a canonical writer run
    w0 = chk.pool.run1(mkspec(["mlr", "--ijson", "--o" + ff] + case["wopts"] + ["cat", "in.json"], sched={"policy": "rtb", "seed": 1}, files={"in.json": in_json(recs)}))
    vd.runs.append(w0)
    if w0.status == "exit" and w0.code == 0 and w0.stdout != text:
        vd.add("writer-output-depends-on-buffering", fmt=fmt, wopts=case["wopts"], config=json.loads(json.dumps(wcfg)), first_diff=c04.first_diff(w0.stdout, text))
        return vd
    data = (b"\xef\xbb\xbf" + text) if case.get("bom") else text
    for cfg in case["configs"]:
        if cfg.get("arrivals"):
            # re-derive an arrival plan for the actual text length
            rr = Rng(cfg["rtseed"], "arr")
            arr, pos = [], 0
            while pos < len(data):
                pos = min(len(data), pos + rr.randint(1, max(2, len(data) // 5)))
                arr.append(pos)
            cfg = dict(cfg)
            cfg["arrivals"] = arr
        rdata = data
        if cfg.get("strip_final"):
            term = final_terminator(case)
            if term and rdata.endswith(term) and len(rdata) > len(term):
                rdata = rdata[:-len(term)]
                vd.notes["final_terminator_stripped"] = vd.notes.get("final_terminator_stripped", 0) + 1
                if cfg.get("arrivals"):
                    cfg = dict(cfg)
                    cfg["arrivals"] = [a for a in cfg["arrivals"] if a < len(rdata)] + [len(rdata)]
        r = run_reader(chk, vd, ff, case["ropts"], rdata, cfg)
        if bad(vd, r, "reader", cfg, fmt=fmt, ropts=case["ropts"], bom=case.get("bom")):
            return vd
        try:
            got = parse_out(r.stdout)
        except ValueError:
            vd.add("reader-output-not-json", fmt=fmt, config=json.loads(json.dumps(cfg)))
            return vd
        if got != want:
            i = 0
            while i < min(len(got), len(want)) and got[i] == want[i]:
                i += 1
            vd.add("records-differ-after-roundtrip", fmt=fmt, wopts=case["wopts"], ropts=case["ropts"], bom=case.get("bom"), config=json.loads(json.dumps(cfg)), index=i,
                   want=want[i] if i < len(want) else None, got=got[i] if i < len(got) else None, n_want=len(want), n_got=len(got))
            return vd
    # fixed point: mlr --fmt cat on its own output (symmetric option sets only)
    if "--headerless-csv-output" not in case["wopts"] and "--headerless-tsv-output" not in case["wopts"] and fmt not in ("nidx",):
        cfg = case["configs"][0]
        fargs = ["mlr"] + (["--records-per-batch", str(cfg["batch"])] if cfg.get("batch") else []) + ["--i" + ff] + case["ropts"] + ["--o" + ff] + case["wopts"] + ["-S", "cat", "t.dat"]
        f = chk.pool.run1(mkspec(fargs, sched=cfg["sched"], chunk=cfg.get("chunk"), knobs=cfg.get("knobs"), rtseed=cfg.get("rtseed", 1), files={"t.dat": text}))
        vd.runs.append(f)
        if not bad(vd, f, "fixed-point", cfg, fmt=fmt) and f.stdout != text:
            vd.add("cat-not-idempotent", fmt=fmt, wopts=case["wopts"], config=json.loads(json.dumps(cfg)), first_diff=c04.first_diff(text, f.stdout))
            return vd
    # standard dialect: independent parser on Miller's text; Miller on an independent writer's text
    if fmt in ("csv", "tsv", "json", "jsonl"):
        indep = independent_parse(case, text) if not case.get("crlf_embedded") else None
        if indep is not None and indep != want:
            vd.add("independent-parser-disagrees", fmt=fmt, wopts=case["wopts"], n_want=len(want), n_got=len(indep), sample=str(indep[:1])[:300])
            return vd
        for style in (0, 1, 2):
            t2 = independent_write(case, style, rng)
            if t2 is None:
                continue
            cfg = case["configs"][style % len(case["configs"])]
            cfg = dict(cfg)
            cfg.pop("arrivals", None)
            r = run_reader(chk, vd, ff, case["ropts"] if fmt != "csv" or "--implicit-csv-header" not in case["ropts"] else [], t2, cfg)
            if bad(vd, r, "reader-of-independent-writer", cfg, fmt=fmt, style=style):
                return vd
            try:
                got = parse_out(r.stdout)
            except ValueError:
                vd.add("reader-output-not-json", fmt=fmt, style=style)
                return vd
            w2 = [[(k, v) for k, v in rec] for rec in recs]
            if got != w2:
                i = 0
                while i < min(len(got), len(w2)) and got[i] == w2[i]:
                    i += 1
                vd.add("independent-writer-misread", fmt=fmt, style=style, index=i, want=w2[i] if i < len(w2) else None, got=got[i] if i < len(got) else None,
                       config=json.loads(json.dumps(cfg)))
                return vd
    return vd


def final_terminator(case):
    """The record terminator the writer was asked to use (bytes), for the 'last line without terminator' runs."""
    w = case["wopts"]
    if "--ors" in w:
        t = w[w.index("--ors") + 1]
        return {"crlf": "\r\n", "lf": "\n"}.get(t, t).encode("utf-8")
    if case["fmt"] in ("usv", "asv"):
        return None
    return b"\n"


def tsv_dec(s):
    out, i = [], 0
    while i < len(s):
        if s[i] == "\\" and i + 1 < len(s) and s[i + 1] in "tnr\\":
            out.append({"t": "\t", "n": "\n", "r": "\r", "\\": "\\"}[s[i + 1]])
            i += 2
        else:
            out.append(s[i])
            i += 1
    return "".join(out)


def tsv_enc(s):
    return s.replace("\\", "\\\\").replace("\t", "\\t").replace("\n", "\\n").replace("\r", "\\r")


def independent_parse(case, text):
    fmt = case["fmt"]
    s = text.decode("utf-8")
    rectangular = len({tuple(k for k, _ in rec) for rec in case["recs"]}) == 1
    if fmt == "csv":
        if not rectangular:
            return None
        sep = ","
        if "--ofs" in case["wopts"]:
            sep = case["wopts"][case["wopts"].index("--ofs") + 1]
            sep = {"tab": "\t"}.get(sep, sep)
        if len(sep) != 1:
            return None
        rows = list(csv.reader(io.StringIO(s, newline=""), delimiter=sep, doublequote=True, strict=True))
        if "--headerless-csv-output" in case["wopts"]:
            return [[(str(i + 1), v) for i, v in enumerate(row)] for row in rows]
        hdr = rows[0]
        return [list(zip(hdr, row)) for row in rows[1:]]
    if fmt == "tsv":
        if not rectangular:
            return None
        eol = "\r\n" if "crlf" in case["wopts"] else "\n"
        lines = s.split(eol)
        if lines and lines[-1] == "":
            lines = lines[:-1]
        if "--headerless-tsv-output" in case["wopts"]:
            return [[(str(i + 1), tsv_dec(x)) for i, x in enumerate(line.split("\t"))] for line in lines]
        hdr = [tsv_dec(x) for x in lines[0].split("\t")]
        return [list(zip(hdr, [tsv_dec(x) for x in line.split("\t")])) for line in lines[1:]]
    if fmt == "json":
        objs = json.loads(s, object_pairs_hook=list) if s.strip() else []
        return [[(k, v) for k, v in o] for o in objs]
    if fmt == "jsonl":
        return [[(k, v) for k, v in json.loads(line, object_pairs_hook=list)] for line in s.split("\n") if line.strip()]
    return None


def independent_write(case, style, rng):
    fmt = case["fmt"]
    recs = case["recs"]
    rectangular = len({tuple(k for k, _ in rec) for rec in recs}) == 1
    if fmt == "csv":
        if not rectangular or case["ropts"]:
            return None
        buf = io.StringIO(newline="")
        wr = csv.writer(buf, quoting=[csv.QUOTE_MINIMAL, csv.QUOTE_ALL, csv.QUOTE_NONNUMERIC][style], lineterminator=["\n", "\r\n", "\n"][style])
        wr.writerow([k for k, _ in recs[0]])
        for rec in recs:
            wr.writerow([v for _, v in rec])
        return buf.getvalue().encode("utf-8")
    if fmt == "tsv":
        if not rectangular or case["ropts"]:
            return None
        eol = ["\n", "\r\n", "\n"][style]
        return (("\t".join(tsv_enc(k) for k, _ in recs[0]) + eol) + "".join("\t".join(tsv_enc(v) for _, v in rec) + eol for rec in recs)).encode("utf-8")
    if fmt == "json":
        objs = [dict(rec) for rec in recs]
        if style == 0:
            return json.dumps(objs).encode()
        if style == 1:
            return json.dumps(objs, indent=3, ensure_ascii=False, separators=(",", " : ")).encode("utf-8")
        return ("\n".join(json.dumps(o, ensure_ascii=True) for o in objs) + "\n").encode()
    if fmt == "jsonl":
        return "".join(json.dumps(dict(rec), ensure_ascii=(style != 1)) + "\n" for rec in recs).encode("utf-8")
    return None


def cases(rng, tier):
    i = 0
    while True:
        i += 1
        yield build_case(rng.fork("c01", i), tier)


def sample_of(case, verdict):
    return {"fmt": case["fmt"], "wopts": case["wopts"], "ropts": case["ropts"], "bom": case.get("bom"), "records": len(case["recs"]), "first_record": case["recs"][0][:4],
            "reader_configs": (case.get("configs") or [])[:2],
            "runs": [{"status": r.status, "code": r.code, "steps": r.steps, "args": r.spec["args"][1:7]} for r in verdict.runs[:6]]}


def known_match(case, klass, detail, known):
    for kf in known:
        if kf.get("status") != "known":
            continue
        pred = kf.get("predicate", "")
        if pred == "tsv-key-needs-escaping":
            # one root cause, several symptoms (round trip, fixed point, independent reader/writer): any class, narrow case
            if case.get("fmt") == "tsv" and any(any(ch in k for ch in "\\\t\n\r") for rec in case.get("recs", []) for k, _ in rec):
                return kf["id"]
            continue
        if kf.get("class") == klass:
            if pred == "bom" and case.get("bom"):
                return kf["id"]
            if pred.startswith("fmt:") and case.get("fmt") in pred[4:].split(","):
                return kf["id"]
    return None


def shrink_candidates(case):
    recs = case["recs"]
    if len(recs) > 1:
        for keep in (recs[:len(recs) // 2], recs[len(recs) // 2:], recs[:1], recs[-1:]):
            c = dict(case)
            c["recs"] = keep
            yield c
    if recs and len(recs[0]) > 1:
        for j in range(len(recs[0])):
            c = dict(case)
            c["recs"] = [[kv for i, kv in enumerate(rec) if i != j] for rec in recs]
            if all(c["recs"]):
                yield c
    cfgs = case.get("configs") or []
    if len(cfgs) > 1:
        for i in range(len(cfgs)):
            c = dict(case)
            c["configs"] = [cfgs[i]]
            yield c
