"""Driver-side library: PRNG, run specs, worker pool, result decoding."""
import base64
import hashlib
import json
import os
import shutil
import subprocess
import sys
import threading
import time
from concurrent.futures import ThreadPoolExecutor

MASK = (1 << 64) - 1


class HarnessError(Exception):
    """Harness trouble: exit 2, never a verdict."""


# ------------------------------------------------------------------ PRNG

def splitmix(x):
    x = (x + 0x9E3779B97F4A7C15) & MASK
    z = x
    z = ((z ^ (z >> 30)) * 0xBF58476D1CE4E5B9) & MASK
    z = ((z ^ (z >> 27)) * 0x94D049BB133111EB) & MASK
    return z ^ (z >> 31)


def mix(*parts):
    h = 0x243F6A8885A308D3
    for p in parts:
        if isinstance(p, str):
            p = int.from_bytes(hashlib.sha256(p.encode()).digest()[:8], "big")
        h = splitmix(h ^ (p & MASK))
    return h


class Rng:
    """Deterministic PRNG (splitmix64 stream); the only source of randomness in the driver."""

    def __init__(self, *seed):
        self.s = mix(*seed)

    def next(self):
        self.s = (self.s + 0x9E3779B97F4A7C15) & MASK
        z = self.s
        z = ((z ^ (z >> 30)) * 0xBF58476D1CE4E5B9) & MASK
        z = ((z ^ (z >> 27)) * 0x94D049BB133111EB) & MASK
        return z ^ (z >> 31)

    def randint(self, a, b):
        return a + self.next() % (b - a + 1)

    def below(self, n):
        return self.next() % n if n > 0 else 0

    def random(self):
        return (self.next() >> 11) / float(1 << 53)

    def chance(self, p):
        return self.random() < p

    def choice(self, seq):
        return seq[self.next() % len(seq)]

    def sample(self, seq, k):
        seq = list(seq)
        out = []
        for _ in range(min(k, len(seq))):
            out.append(seq.pop(self.next() % len(seq)))
        return out

    def shuffle(self, seq):
        for i in range(len(seq) - 1, 0, -1):
            j = self.next() % (i + 1)
            seq[i], seq[j] = seq[j], seq[i]

    def fork(self, *label):
        return Rng(self.next(), *label)


# ------------------------------------------------------------------ results

def b64(b):
    if isinstance(b, str):
        b = b.encode()
    return base64.b64encode(b).decode()


def unb64(s):
    return base64.b64decode(s) if s else b""


class Result:
    def __init__(self, raw, spec):
        self.raw = raw
        self.spec = spec
        oc = raw["outcome"]
        self.status = oc["status"]
        self.code = oc.get("exit_code", 0)
        if self.status == "returned":
            self.status = "exit"
            self.code = 0
        self.stdout = unb64(raw.get("stdout_b64"))
        self.stderr = unb64(raw.get("stderr_b64"))
        self.files = {k: (unb64(v.get("b64")), v.get("mode", 0)) for k, v in (raw.get("files") or {}).items()}
        self.fired = raw.get("fired") or []
        self.fsops = raw.get("fsops") or []
        self.op_count = raw.get("op_count", 0)
        self.steps = oc.get("steps", 0)
        self.ticks = oc.get("ticks", 0)
        self.branching = oc.get("branching", 0)
        self.trace_hash = oc.get("trace_hash", "")
        self.states = oc.get("abstract_states", 0)
        self.goroutines = oc.get("goroutines") or []
        self.sites = oc.get("sites") or {}
        self.choices = oc.get("choices") or []
        self.trace = oc.get("trace") or []
        self.blocked = oc.get("blocked") or []
        self.map_races = oc.get("map_races") or []
        self.map_checks = oc.get("map_checks") or 0
        self.clock_jumps = oc.get("clock_jumps") or 0
        self.map_shared = oc.get("map_shared") or 0
        self.deliveries = raw.get("deliveries") or []
        self.exit_normal = raw.get("exit_normal", False)
        self.note = raw.get("note", "")
        self.panic_text = oc.get("panic_text", "")
        self.guard_hits = raw.get("guard_hits") or []
        self.max_open_w = raw.get("max_open_w", 0)
        self.max_open_r = raw.get("max_open_r", 0)
        self.open_r_at_end = raw.get("open_r_at_end", 0)
        self.open_w_at_end = raw.get("open_w_at_end", 0)
        self.children = raw.get("children", False)

    @property
    def ok(self):
        return self.status == "exit" and self.code == 0

    @property
    def failed(self):
        return self.status == "exit" and self.code != 0

    def klass(self):
        """Coarse outcome class used by oracles and the shrinker."""
        if self.status == "exit":
            return "ok" if self.code == 0 else "fail"
        return self.status

    def brief(self):
        return {
            "status": self.status, "code": self.code, "steps": self.steps, "stdout_len": len(self.stdout),
            "stdout_sha": hashlib.sha256(self.stdout).hexdigest()[:12], "stderr": self.stderr[:300].decode("utf-8", "replace"),
            "fired": self.fired, "blocked": self.blocked[:12], "trace_hash": self.trace_hash,
            "panic": self.panic_text[:600],
        }


# ------------------------------------------------------------------ pool

BASE_ENV = {
    "PATH": "/usr/local/bin:/usr/bin:/bin",
    "HOME": "/nonexistent",
    "LANG": "C",
    "MLRRC": "__none__",
    "MLR_NO_COLOR": "1",
    "TZ": "",
}


class Pool:
    def __init__(self, worker, jobs=None, tag="run"):
        self.worker = worker
        self.jobs = jobs or min(16, os.cpu_count() or 4)
        self.top = "/dev/shm/verif-%d-%s" % (os.getpid(), tag)
        shutil.rmtree(self.top, ignore_errors=True)
        os.makedirs(self.top, exist_ok=True)
        self.n = 0
        self.lock = threading.Lock()
        self.ex = ThreadPoolExecutor(self.jobs)
        self.runs = 0
        self.retries = 0
        self.sim_steps = 0
        self.wall_in_workers = 0.0
        self.cpu_limit = 90  # seconds of CPU per simulated process (typical run: 0.02 s); exceeding it is reported as livelock

    def close(self):
        self.ex.shutdown(wait=True, cancel_futures=True)
        shutil.rmtree(self.top, ignore_errors=True)

    def _next(self):
        with self.lock:
            self.n += 1
            return self.n

    def run1(self, spec, gomaxprocs=None, timeout=180):
        """Runs one spec in a fresh worker process. Returns Result."""
        last = None
        for attempt in range(3):
            r = self._run_once(spec, gomaxprocs, timeout)
            if isinstance(r, Result):
                return r
            last = r
            with self.lock:
                self.retries += 1
        raise HarnessError("worker failed 3 times: %s\nspec: %s" % (last, json.dumps(spec)[:2000]))

    def _run_once(self, spec, gomaxprocs, timeout):
        k = self._next()
        d = os.path.join(self.top, "r%d" % k)
        spec = dict(spec)
        spec["dir"] = d
        sp = d + ".spec.json"
        rp = d + ".res.json"
        with open(sp, "w") as f:
            json.dump(spec, f)
        env = dict(BASE_ENV)
        env.update(spec.get("env") or {})
        for kk, vv in (spec.get("knobs") or {}).items():
            env["VERIF_KNOB_" + kk] = str(vv)
        env["VERIF_RTSEED"] = str(spec.get("rtseed", 1))
        env["GOMAXPROCS"] = str(gomaxprocs or spec.get("gomaxprocs") or 2)
        env["GOTRACEBACK"] = "all"
        t0 = time.time()
        try:
            p = subprocess.run(["/usr/bin/prlimit", "--cpu=%d" % self.cpu_limit, self.worker, "-test.run", "^TestSim$", "-test.timeout", "0", "-spec", sp, "-result", rp],
                               stdin=subprocess.DEVNULL, stdout=subprocess.PIPE, stderr=subprocess.PIPE, env=env, timeout=timeout, cwd="/")
        except subprocess.TimeoutExpired:
            self._cleanup(d, sp, rp)
            return "wall-clock timeout after %ds" % timeout
        dt = time.time() - t0
        res = None
        if os.path.exists(rp):
            try:
                with open(rp) as f:
                    res = json.load(f)
            except Exception as e:  # unreadable result
                res = None
        errtxt = p.stderr.decode("utf-8", "replace")
        self._cleanup(d, sp, rp)
        with self.lock:
            self.runs += 1
            self.wall_in_workers += dt
        if res is not None:
            r = Result(res, spec)
            with self.lock:
                self.sim_steps += r.steps
            return r
        if p.returncode in (-24, -9, 128 + 24, 128 + 9) and dt > 5:
            # killed by the CPU-time limit (SIGXCPU, then SIGKILL): a non-yielding loop the tick budget cannot see
            fake = {"outcome": {"status": "livelock", "blocked": ["cpu limit of %ds exceeded (rc=%s)" % (self.cpu_limit, p.returncode)]},
                    "stdout_b64": "", "stderr_b64": "", "note": "cpu-limit"}
            return Result(fake, spec)
        # the worker died without a result: a Go panic / fatal error in the SUT is a finding, not harness trouble
        if "panic:" in errtxt or "fatal error:" in errtxt or "goroutine " in errtxt:
            fake = {"outcome": {"status": "panic", "panic_text": errtxt[-6000:]}, "stdout_b64": "", "stderr_b64": ""}
            if "simworker:" in errtxt.split("panic:")[0][-200:]:
                return "worker error: " + errtxt[-1500:]
            return Result(fake, spec)
        return "rc=%s stderr=%s" % (p.returncode, errtxt[-1500:])

    def _cleanup(self, d, sp, rp):
        for pth in (sp, rp, d + ".stdout", d + ".stderr"):
            try:
                os.remove(pth)
            except OSError:
                pass
        shutil.rmtree(d, ignore_errors=True)

    def map(self, specs, **kw):
        """Runs specs in parallel, yields results in order."""
        return list(self.ex.map(lambda s: self.run1(s, **kw), specs))

    def submit(self, fn, *a):
        return self.ex.submit(fn, *a)


# ------------------------------------------------------------------ spec helpers

def mkspec(args, files=None, stdin=None, arrivals=None, sched=None, knobs=None, env=None, links=None, mode="sim",
           chunk=None, faults=None, crash_op=None, snapshot=False, log_ops=False, tail=False, fd_limit=0, rfd_limit=0, snap_at_exit=False,
           rtseed=1, max_steps=400000, max_ticks=30000000):
    spec = {"mode": mode, "args": list(args), "env": dict(env or {}), "files": {}, "snapshot": snapshot,
            "log_ops": log_ops, "tail": tail, "rtseed": rtseed}
    for name, v in (files or {}).items():
        if isinstance(v, tuple):
            data, fmode = v
        else:
            data, fmode = v, 0o644
        spec["files"][name] = {"b64": b64(data), "mode": fmode}
    if links:
        spec["links"] = dict(links)
    if stdin is not None:
        spec["stdin"] = {"b64": b64(stdin), "arrivals": arrivals}
    sc = dict(sched or {"policy": "random", "seed": 1})
    sc.setdefault("max_steps", max_steps)
    sc.setdefault("max_ticks", max_ticks)
    spec["sched"] = sc
    if knobs:
        spec["knobs"] = dict(knobs)
    if chunk:
        spec["chunk"] = dict(chunk)
    if faults:
        spec["faults"] = [dict(f) for f in faults]
    if crash_op is not None:
        spec["crash_op"] = crash_op
    if fd_limit:
        spec["fd_limit"] = fd_limit
    if rfd_limit:
        spec["rfd_limit"] = rfd_limit
    if snap_at_exit:
        spec["snap_at_exit"] = True
    return spec


POLICIES = ["random", "rtb", "rr", "pct", "first"]
PREEMPT_SHARE = float(os.environ.get("VERIF_PREEMPT_SHARE", "0.25"))


def random_sched(rng, goroutines=None, want_choices=False):
    """Swarm-style policy choice."""
    pol = rng.choice(["random", "random", "rtb", "rr", "pct", "pct", "random"])
    sc = {"policy": pol, "seed": rng.randint(1, 1 << 40), "select_mode": rng.choice(["random", "random", "first", "last"])}
    if pol == "pct":
        sc["pct_depth"] = rng.randint(1, 5)
        sc["pct_horizon"] = rng.choice([50, 200, 1000])
    r = rng.random()
    if goroutines and r < 0.45:
        g = rng.choice(goroutines)
        if rng.chance(0.7):
            sc["starve"] = "=" + g
        else:
            sc["favor"] = "=" + g
        if rng.chance(0.3):
            sc["eps"] = 0.05
    elif r < 0.6:
        sc["site_avoid" if rng.chance(0.5) else "site_favor"] = rng.choice(
            ["os.write", "os.read", "stream.go", "channel_writer.go", "aaa_chain_transformer.go", "go@", "os.close", "start"])
    if rng.chance(PREEMPT_SHARE):
        # preemption at loop heads (mid-function interleavings), on average once every n loop iterations
        sc["preempt"] = rng.choice([2, 5, 20, 100, 1000])
    if rng.chance(0.25):
        # whenever nothing can run, simulated time passes (pending timers fire) before the next stdin arrival or any
        # progress of a real child is looked for: the outside world is slower than any timeout
        sc["timers_first"] = True
    if want_choices:
        sc["want_choices"] = True
    return sc


def starve_each(goroutines, seed):
    """One schedule per goroutine with it at lowest priority and one at highest."""
    out = []
    for i, g in enumerate(goroutines):
        out.append({"policy": "random", "seed": seed + 2 * i, "starve": "=" + g})
        out.append({"policy": "random", "seed": seed + 2 * i + 1, "favor": "=" + g})
    return out


def sha12(b):
    return hashlib.sha256(b).hexdigest()[:12]
