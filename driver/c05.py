"""C05 (stream-facing facets) - NR/FNR/FILENAME bookkeeping under batch cuts; source transparency; then == pipe."""
import bz2
import gzip
import json
import zlib

import c04
import c17
import gen
from checklib import Verdict
from simlib import Rng, mkspec, random_sched

PROPERTY = "C05"
LEVEL = "exploration"
BUDGET = {"quick": 75, "thorough": 1500}
MIN_CASES = {"quick": 3000}  # see checklib.Check: quick goes on to this many cases on a loaded machine (up to 3x its budget)
RULE = ("three case families: (a) 1-4 input files (empty files, missing final newline, CSV headers differing per file, "
        "implicit header) through put emitting NR/FNR/FILENAME/FILENUM/NF, judged against a ten-line independent model, "
        "under batch sizes that put file boundaries inside and at the edges of batches, schedules and read chunkings; "
        "(b) the same bytes presented as file, simulated stdin with an arbitrary arrival plan, --from, gzip/zlib/bzip2 "
        "(by flag and by extension, decompressor fed by short reads), --prepipe/--prepipex cat (real child): identical "
        "stdout required; (c) `A then B [then C]` in one simulated process versus one simulated process per stage "
        "connected by the captured JSON byte stream, each stage under its own schedule/batch/chunking. Non-trivial = "
        "scheduler had >=2 candidates; distinct = distinct (case hash, trace hash).")
ASSUMPTIONS = [
    "facet claim only: the bulk of 'all verb pairs x all inputs' is input sampling and is outside this technique",
    "then==pipe excludes verbs consulting NR/FNR/FILENAME/FILENUM, RNG verbs and stage outputs containing error values; stages run to completion (no EPIPE on early exit)",
    "prepipe children are real /bin/sh processes with uncontrolled timing",
]
COMPONENTS = c04.COMPONENTS


# ---------------------------------------------------------------- (a) bookkeeping

def build_book(r, tier):
    fmt = r.choice(["dkvp", "dkvp", "csv", "csv_implicit", "json", "nidx", "tsv", "jsonl", "xtab", "pprint", "pprint_fixed", "pprint_barred",
                    "markdown", "csvlite"])
    nfiles = r.randint(1, 4)
    batch = r.choice([1, 2, 3, 4, 5, 7, 500])
    files, names, model = {}, [], []
    nr = 0
    trivial = fmt in ("csv", "tsv") and r.chance(0.3)
    for k in range(nfiles):
        n = r.choice([0, 0, 1, 2, batch - 1, batch, batch + 1, 2 * batch, r.randint(1, 12)])
        n = max(0, min(n, 40))
        nm = "f%d.%s" % (k + 1, fmt.split("_")[0])
        nf = r.randint(1, 5) if fmt in ("csv", "csv_implicit", "tsv", "nidx", "pprint", "pprint_fixed", "pprint_barred", "markdown", "csvlite") else None
        lines = []
        hdr = ["h%d_%d" % (k + 1, c) for c in range(nf or 0)]
        recs = []
        for j in range(n):
            if nf:
                vals = [str(r.randint(0, 99)) for _ in range(nf)]
                recs.append(list(zip(hdr, vals)))
            else:
                m = r.randint(1, 5)
                recs.append([("c%d" % c, str(r.randint(0, 99))) for c in range(m)])
        if fmt in ("csv", "tsv"):
            sep = "," if fmt == "csv" else "\t"
            if n > 0 or r.chance(0.5):
                lines.append(sep.join(hdr))
            for rec in recs:
                if trivial and nf >= 3 and r.chance(0.3):
                    # an all-empty line of the wrong length: dropped by the reader (not counted) when the chain has
                    # skip-trivial-records
                    lines.append(sep if fmt == "csv" else "")
                lines.append(sep.join(v for _, v in rec))
            text = "\n".join(lines) + ("\n" if lines else "")
        elif fmt == "csvlite":
            # schema change inside the file: blank line, then a new header (same names with a suffix)
            cut = r.randint(1, n - 1) if n >= 2 and r.chance(0.5) else None
            if n > 0 or r.chance(0.5):
                lines.append(",".join(hdr))
            for j, rec in enumerate(recs):
                if cut is not None and j == cut:
                    lines.append("")
                    lines.append(",".join(h + "x" for h in hdr))
                if cut is not None and j >= cut:
                    recs[j] = [(h + "x", v) for h, v in rec]
                lines.append(",".join(v for _, v in rec))
            text = "\n".join(lines) + ("\n" if lines else "")
        elif fmt in ("pprint", "pprint_fixed"):
            # left-aligned columns, widths differ per file (so a splitter kept from the previous file mis-cuts)
            widths = [r.randint(len(h) + 1, len(h) + 6) for h in hdr]
            if n > 0 or r.chance(0.5):
                lines.append("".join(h.ljust(w) for h, w in zip(hdr, widths)).rstrip() if fmt == "pprint" else "".join(h.ljust(w) for h, w in zip(hdr, widths)))
            for rec in recs:
                lines.append("".join(v.ljust(w) for (_, v), w in zip(rec, widths)))
            text = "\n".join(lines) + ("\n" if lines else "")
        elif fmt == "pprint_barred":
            widths = [len(h) + r.randint(0, 3) for h in hdr]
            bar = "+" + "+".join("-" * (w + 2) for w in widths) + "+"
            if n > 0:
                lines.append(bar)
                lines.append("| " + " | ".join(h.ljust(w) for h, w in zip(hdr, widths)) + " |")
                lines.append(bar)
                for rec in recs:
                    lines.append("| " + " | ".join(v.ljust(w) for (_, v), w in zip(rec, widths)) + " |")
                lines.append(bar)
            text = "\n".join(lines) + ("\n" if lines else "")
        elif fmt == "markdown":
            if n > 0 or r.chance(0.5):
                lines.append("| " + " | ".join(hdr) + " |")
                lines.append("| " + " | ".join("---" for _ in hdr) + " |")
            for rec in recs:
                lines.append("| " + " | ".join(v for _, v in rec) + " |")
            text = "\n".join(lines) + ("\n" if lines else "")
        elif fmt == "csv_implicit":
            for rec in recs:
                lines.append(",".join(v for _, v in rec))
            text = "\n".join(lines) + ("\n" if lines else "")
        elif fmt == "nidx":
            for rec in recs:
                lines.append(" ".join(v for _, v in rec))
            text = "\n".join(lines) + ("\n" if lines else "")
        elif fmt == "dkvp":
            text = gen.to_dkvp(recs)
        elif fmt == "json":
            text = "[\n" + ",\n".join("{" + ", ".join("%s: %s" % (json.dumps(kk), vv) for kk, vv in rec) + "}" for rec in recs) + "\n]\n"
            if n == 0 and r.chance(0.5):
                text = ""
        elif fmt == "jsonl":
            text = "".join("{" + ", ".join("%s: %s" % (json.dumps(kk), vv) for kk, vv in rec) + "}\n" for rec in recs)
        elif fmt == "xtab":
            text = "\n".join("".join("%s %s\n" % kv for kv in rec) for rec in recs)
        if text.endswith("\n") and fmt not in ("json",) and n > 0 and r.chance(0.3):
            text = text[:-1]  # no trailing newline at end of file
        ck = r.choice(["", "", "", "", "gz", "z", "bz2"])
        if ck:
            # compressed by extension: the decompressor wraps the file handle (which must still be closed at end of file)
            nm = nm + "." + ck
            text = {"gz": lambda b: gzip.compress(b, mtime=0), "z": zlib.compress, "bz2": bz2.compress}[ck](text.encode()).decode("latin1")
        files[nm] = text
        names.append(nm)
        for j, rec in enumerate(recs):
            nr += 1
            positional = fmt in ("csv_implicit", "nidx")
            model.append({"nr": nr, "fnr": j + 1, "f": nm, "k": k + 1, "nf1": len(rec), "nf2": len(rec) + 1,
                          "keys": ";".join(str(c + 1) if positional else kk for c, (kk, _) in enumerate(rec)),
                          "vals": ";".join(vv for _, vv in rec)})
    iflags = {"dkvp": [], "csv": ["--icsv"], "csv_implicit": ["--icsv", "--implicit-csv-header"], "json": ["--ijson"], "nidx": ["--inidx", "--ifs", " "],
              "tsv": ["--itsv"], "jsonl": ["--ijsonl"], "xtab": ["--ixtab"], "pprint": ["--ipprint"], "pprint_fixed": ["--ipprint", "--fixed", "left-align"],
              "pprint_barred": ["--ipprint", "--barred-input"], "markdown": ["--imd"], "csvlite": ["--icsvlite"]}[fmt]
    # keys/vals: the record content itself (per-file header reset, concatenation of files), not only the counters
    prog = ("str keys = joink($*, \";\"); str vals = joinv($*, \";\"); $nf1 = NF; $nf2 = NF; "
            "$* = {\"nr\": NR, \"fnr\": FNR, \"f\": FILENAME, \"k\": FILENUM, \"nf1\": $nf1, \"nf2\": $nf2, \"keys\": keys, \"vals\": vals}; "
            "end { " + ("if (is_present(NF) && NF < 0) { print \"NF below zero at end\" } " if r.chance(0.5) else "") +  # no current record here: any value will do, a crash will not
            "emit mapsum({\"final_nr\": NR}, {}) }")
    args = ["mlr"] + iflags + ["--ojson"] + (["skip-trivial-records", "then"] if trivial else []) + ["put", prog] + names
    model.append({"final_nr": nr})
    return {"kind": "book", "args": args, "files": files, "model": model, "batch": batch, "cseed": r.randint(1, 1 << 40), "fmt": fmt,
            "nconf": 5 if tier == "quick" else 9}


def eval_book(case, chk):
    vd = Verdict()
    kw = {"files": {k: v.encode("latin1") for k, v in case["files"].items()}}
    if case.get("configs") is None:
        rng = Rng(case["cseed"], "cfg")
        cfgs = c04.gen_configs(rng, None, case["nconf"], batches=[case["batch"], case["batch"], 1, 2, 3, 500])
        for c in cfgs:
            c.pop("flags", None)
            if len(case["files"]) >= 3 and rng.chance(0.5):
                # a process may hold few descriptors (ulimit -n): files are read one after the other, so two input
                # handles at a time must be enough however many files are named
                c["rfd_limit"] = 2
        case["configs"] = cfgs
    for cfg in case["configs"]:
        r = chk.pool.run1(mkspec(c04.perturb_args(case["args"], cfg), sched=cfg["sched"], knobs=cfg.get("knobs"), chunk=cfg.get("chunk"),
                                 rtseed=cfg.get("rtseed", 1), rfd_limit=cfg.get("rfd_limit", 0), **kw))
        if cfg.get("rfd_limit"):
            vd.notes["runs_with_input_descriptor_limit"] = vd.notes.get("runs_with_input_descriptor_limit", 0) + 1
        vd.runs.append(r)
        cfgs_ = json.loads(json.dumps(cfg))
        if r.status != "exit":
            vd.add("no-termination" if r.status in ("deadlock", "livelock") else r.status, config=cfgs_, blocked=r.blocked[:10], text=r.panic_text[-600:])
            break
        if r.code != 0:
            vd.add("fails", config=cfgs_, stderr=r.stderr[:300].decode("utf-8", "replace"), fired=r.fired[:2], max_open_inputs=r.max_open_r)
            break
        try:
            got = json.loads(r.stdout.decode()) if r.stdout.strip() else []
        except ValueError:
            vd.add("output-not-json", config=cfgs_, head=r.stdout[:200].decode("utf-8", "replace"))
            break
        if got != case["model"]:
            i = 0
            while i < min(len(got), len(case["model"])) and got[i] == case["model"][i]:
                i += 1
            vd.add("bookkeeping-differs", config=cfgs_, index=i, want=case["model"][i] if i < len(case["model"]) else None,
                   got=got[i] if i < len(got) else None, n_want=len(case["model"]), n_got=len(got))
            break
    return vd


# ---------------------------------------------------------------- (b) source transparency

def build_source(r, tier):
    fmt = r.choice(["dkvp", "csv", "json", "tsv", "jsonl", "nidx"])
    n = r.choice([0, 1, 3, 10, 60, 300])
    recs = c17.rect_records(r, n)
    text = c17.fmt_text(fmt, recs)
    if fmt == "json" and n == 0:
        text = "[\n]\n"
    verbs = [r.choice([["cat"], ["cat", "-n"], ["sort", "-f", "a"], ["put", "$z = NR"], ["tac"], ["head", "-n", "4"], ["count-similar", "-g", "a"]])]
    if fmt == "nidx":
        verbs = [r.choice([["cat"], ["cat", "-n"], ["tac"]])]
    # file names needing escaping when handed to a shell (--prepipe) must still name the same bytes
    fname = r.choice(["data.in"] * 6 + ["it's.dat", "q\"q.dat", "do$llar.dat", "sp ace.dat", "semi;colon.dat", "amp&ersand.dat", "st*r.dat", "(paren).dat",
                                      "back`tick.dat", "bang!.dat", "hash#.dat", "\u00fcn\u00ef.dat", "two  spaces.dat", "q'q\"q.dat", "$(echo x).dat", "a|b.dat", "a>b.dat"])
    return {"kind": "source", "fname": fname, "fmt": fmt, "text": text, "verbs": verbs, "cseed": r.randint(1, 1 << 40), "oflags": r.choice([[], ["--ojson"], ["--ocsv"]]),
            "nvar": 6 if tier == "quick" else 12}


SOURCES = ["file", "stdin", "from", "gz_multi", "gz_multi_stdin", "gz_ext", "gz_flag", "z_ext", "z_flag", "bz2_ext", "bz2_flag", "gz_stdin", "prepipe", "prepipex", "file_twice_from",
           "files_list", "files_list_nonl", "mfrom"]


def source_spec(case, src, rng):
    fmt = case["fmt"]
    raw = case["text"].encode()
    iflags = c17.IFLAGS[fmt]
    chain = gen.chain_args(case["verbs"])
    base = ["mlr"] + iflags + case["oflags"]
    kw = {}
    fn = case.get("fname", "data.in")
    if src == "file":
        args, kw["files"] = base + chain + [fn], {fn: raw}
    elif src == "stdin":
        arr = None
        if rng.chance(0.7) and raw:
            arr, pos = [], 0
            while pos < len(raw):
                pos = min(len(raw), pos + rng.randint(1, max(2, len(raw) // 3)))
                arr.append(pos)
        args, kw["stdin"], kw["arrivals"] = base + chain, raw, arr
    elif src == "from":
        args, kw["files"] = ["mlr", "--from", fn] + iflags + case["oflags"] + chain, {fn: raw}
    elif src == "gz_ext":
        args, kw["files"] = base + chain + [fn + ".gz"], {fn + ".gz": gzip.compress(raw, mtime=0)}
    elif src in ("gz_multi", "gz_multi_stdin"):
        # a gzip file may consist of several members (gzip -c b >> f.gz; cat a.gz b.gz): all of them are the content
        cut = raw.rfind(b"\n", 0, max(1, len(raw) // 2)) + 1
        z = gzip.compress(raw[:cut], mtime=0) + gzip.compress(raw[cut:], mtime=0) if 0 < cut < len(raw) else gzip.compress(raw, mtime=0) + gzip.compress(b"", mtime=0)
        if src == "gz_multi":
            args, kw["files"] = base + chain + [fn + ".gz"], {fn + ".gz": z}
        else:
            args, kw["stdin"] = ["mlr", "--gzin"] + iflags + case["oflags"] + chain, z
    elif src == "gz_flag":
        args, kw["files"] = ["mlr", "--gzin"] + iflags + case["oflags"] + chain + [fn + ".bin"], {fn + ".bin": gzip.compress(raw, mtime=0)}
    elif src == "z_ext":
        args, kw["files"] = base + chain + [fn + ".z"], {fn + ".z": zlib.compress(raw)}
    elif src == "z_flag":
        args, kw["files"] = ["mlr", "--zin"] + iflags + case["oflags"] + chain + [fn + ".bin"], {fn + ".bin": zlib.compress(raw)}
    elif src == "bz2_ext":
        args, kw["files"] = base + chain + [fn + ".bz2"], {fn + ".bz2": bz2.compress(raw)}
    elif src == "bz2_flag":
        args, kw["files"] = ["mlr", "--bz2in"] + iflags + case["oflags"] + chain + [fn + ".bin"], {fn + ".bin": bz2.compress(raw)}
    elif src == "gz_stdin":
        args, kw["stdin"] = ["mlr", "--gzin"] + iflags + case["oflags"] + chain, gzip.compress(raw, mtime=0)
    elif src == "prepipe":
        args, kw["files"] = ["mlr", "--prepipe", "cat"] + iflags + case["oflags"] + chain + [fn], {fn: raw}
    elif src == "prepipex":
        args, kw["files"] = ["mlr", "--prepipex", "cat"] + iflags + case["oflags"] + chain + [fn], {fn: raw}
    elif src in ("files_list", "files_list_nonl"):
        # names of the input files taken from a list file, one per line; the last line may lack its newline
        args, kw["files"] = ["mlr", "--files", "list.txt"] + iflags + case["oflags"] + chain, {fn: raw, "list.txt": (fn + ("\n" if src == "files_list" else "")).encode()}
    elif src == "mfrom":
        args, kw["files"] = ["mlr", "--mfrom", fn, "--"] + iflags + case["oflags"] + chain, {fn: raw}
    elif src == "file_twice_from":
        args, kw["files"] = ["mlr", "--from", fn] + iflags + case["oflags"] + chain, {fn: raw}
    return args, kw


def eval_source(case, chk):
    vd = Verdict()
    if case.get("variants") is None:
        rng = Rng(case["cseed"], "var")
        vs = [{"src": "file", "sched": {"policy": "rtb", "seed": 1}, "batch": None, "vseed": 1}]
        for i in range(case["nvar"]):
            v = {"src": rng.choice(SOURCES), "sched": random_sched(rng, None), "batch": rng.choice([None, 1, 2, 3, 7]), "vseed": rng.randint(1, 1 << 30),
                 "rtseed": rng.randint(1, 1 << 30)}
            if rng.chance(0.5):
                v["chunk"] = {"max": rng.choice([1, 2, 3, 7, 64]), "mode": rng.choice(["fixed", "random"]), "seed": rng.randint(1, 1 << 30)}
            if rng.chance(0.3):
                v["knobs"] = {"bufr": rng.choice([16, 64, 4096])}
            vs.append(v)
        case["variants"] = vs
    first = None
    for v in case["variants"]:
        args, kw = source_spec(case, v["src"], Rng(v["vseed"], "arr"))
        if v.get("batch"):
            args = [args[0], "--records-per-batch", str(v["batch"])] + args[1:]
        r = chk.pool.run1(mkspec(args, sched=v["sched"], chunk=v.get("chunk"), knobs=v.get("knobs"), rtseed=v.get("rtseed", 1), **kw))
        vd.runs.append(r)
        vd.notes["src:" + v["src"]] = vd.notes.get("src:" + v["src"], 0) + 1
        vs_ = json.loads(json.dumps(v))
        if r.status == "child-stall":
            vd.skipped = "child-stall"
            continue
        if r.status != "exit":
            vd.add("no-termination" if r.status in ("deadlock", "livelock") else r.status, variant=vs_, blocked=r.blocked[:10], text=r.panic_text[-600:])
            break
        if first is None:
            first = r
            if r.code != 0:
                vd.skipped = "base-fails"
                return vd
            continue
        if r.code != 0:
            vd.add("source-fails", variant=vs_, stderr=r.stderr[:300].decode("utf-8", "replace"))
            break
        if r.stdout != first.stdout:
            vd.add("source-output-differs", variant=vs_, first_diff=c04.first_diff(first.stdout, r.stdout), want_len=len(first.stdout), got_len=len(r.stdout))
            break
    return vd


# ---------------------------------------------------------------- (c) then == pipe

def pipe_safe(verb):
    s = " ".join(verb)
    if any(w in s for w in ("NR", "FNR", "FILENAME", "FILENUM", "seqgen", "print", "emit", "dump", "tee", "@", "ENV", "nothing")):
        return False
    if verb[0] in ("describe", "summary", "sparkline", "bar", "json-parse", "utf8-to-latin1", "flatten", "unflatten", "rank"):
        # report or depend on inferred types (a float 0 prints as "0" and is an int to the next process): not type-stable
        return False
    if verb[0] in ("fill-down", "sec2gmt", "sec2gmtdate", "split", "case", "format-values", "having-fields", "template", "unsparsify", "sparsify",
                   "merge-fields", "top", "step", "histogram", "fraction", "stats2", "json-stringify", "altkv", "nest", "grep", "sub", "gsub", "label"):
        # value-text-sensitive or positional verbs: kept out of the first cut of this facet; see DESIGN
        return verb[0] in ("fill-down", "sec2gmt", "having-fields", "unsparsify", "sparsify", "label", "grep", "sub", "gsub", "top", "step", "nest")
    return True


def build_pipe(r, tier):
    nst = r.choice([2, 2, 3])
    verbs = []
    tries = 0
    while len(verbs) < nst and tries < 200:
        tries += 1
        t = r.choice(["S", "S", "N", "E"])
        v = r.choice(gen.BY_TAG[t])(r)
        if pipe_safe(v):
            verbs.append(v)
    if r.chance(0.2):
        # each put/filter has its own functions and variables: the same names in two stages are different things
        same = [["put", x] for x in ["func f(a) { return a * 10 } $y1 = apply([$i], f)[1]", "func f(a) { return a + 1 } $y2 = apply([$i], f)[1]",
                                     "func f(a, b) { return b <=> a } $y5 = joinv(sort([$i, 3, 40], f), \";\")", "func f(a, b) { return a <=> b } $y6 = joinv(sort([$i, 3, 40], f), \";\")",
                                     "func f(acc, e) { return acc + e } $y7 = fold([$i, 1, 2], f, 0)", "func f(acc, e) { return acc . e } $y8 = fold([$i, 1, 2], f, \"\")",
                                     "func g(a) { return a * 2 } func f(a) { return g(a) + 1 } $y9 = f($i)", "func g(a) { return a * 3 } func f(a) { return g(a) - 1 } $y0 = f($i)",
                                     "func f(k, v) { return {toupper(k): v} } $y4 = joink(apply({\"q\": $i}, f), \",\")", "func f(k, v) { return {k . k: v} } $y3 = joink(apply({\"q\": $i}, f), \",\")"]]
        verbs = r.sample(same, r.choice([2, 2, 3]))
    if r.chance(0.12):
        # a stage that inserts, removes or moves fields, then a stage that consults the field count or positions: the
        # record a stage hands on must be as consistent as one read afresh from a pipe
        changer = r.choice([["nest", "--explode", "--values", "--across-fields", "-f", r.choice(["b", "x", "y", "a"]), "--nested-fs", r.choice([";", "a", "e", "."])],
                            ["nest", "--explode", "--pairs", "--across-fields", "-f", r.choice(["b", "y"]), "--nested-fs", ";", "--nested-ps", ":"],
                            ["nest", "--explode", "--values", "--across-records", "-f", r.choice(["b", "y"]), "--nested-fs", r.choice([";", "e"])],
                            ["reorder", "-e", "-f", "a"], ["reorder", "-f", r.choice(["y", "x,i"])], ["cut", "-x", "-f", r.choice(["a", "y", "b,x"])], ["cut", "-o", "-f", "y,a"],
                            ["rename", "-r", "^(.)$,f_\\1"], ["rename", "y,a"], ["sec2gmt", "i"], ["fill-down", "-a"], ["unsparsify"], ["regularize"],
                            ["sort-within-records"], ["template", "-f", "y,zz,a"], ["sparsify"], ["having-fields", "--at-least", "a"], ["altkv"] if False else ["label", "q,r,s"]])
        user = r.choice([["put", "$nf = NF"], ["put", "$last = $[[[NF]]]"], ["put", "$lastname = $[[NF]]"], ["put", "$nf = NF; $nf2 = NF"], ["put", "unset $[[1]]; $nf = NF"],
                         ["put", "$*  = mapsum({\"nf\": NF}, $*)"], ["put", "for (k, v in $*) { $n = NF } "], ["filter", "NF > 3"], ["put", "$[[[1]]] = NF"]])
        recs = gen.gen_records(r, r.choice([1, 3, 8, 25]), sparse=r.chance(0.3))
        recs = [rec + [("zlast", r.choice(["p;q;r", "s", "t;u", "a:1;b:2", "e.f"]))] if r.chance(0.6) else rec for rec in recs]
        if changer[0] == "nest" and r.chance(0.6):
            changer[changer.index("-f") + 1] = "zlast"
        verbs = [changer, user] + ([r.choice([["regularize"], ["sort-within-records"], ["unsparsify"], ["cat"]])] if r.chance(0.3) else [])
        return {"kind": "pipe", "verbs": verbs, "text": gen.to_json(recs), "cseed": r.randint(1, 1 << 40), "nconf": 2 if tier == "quick" else 4}
    if r.chance(0.12):
        # map- and array-valued fields (JSON carries them through a pipe unchanged): a stage that hands a collection from
        # one record to another, then stages that edit collections in place
        c = gen.alias_coll_case(r, tier)
        args = c["args"]
        segs, cur = [], []
        for a in args[3:-1]:
            if a == "then":
                segs.append(cur)
                cur = []
            else:
                cur.append(a)
        segs.append(cur)
        if all(pipe_safe(v) for v in segs) and not any(v[0] in ("flatten", "bootstrap", "repeat") for v in segs):
            return {"kind": "pipe", "verbs": segs, "text": c["files"]["in0.txt"], "cseed": r.randint(1, 1 << 40), "nconf": 3 if tier == "quick" else 5,
                    "preempt": True}
    recs = gen.gen_records(r, r.choice([0, 1, 3, 8, 25, 70]), sparse=r.chance(0.3))
    text = gen.to_json(recs)
    return {"kind": "pipe", "verbs": verbs, "text": text, "cseed": r.randint(1, 1 << 40), "nconf": 2 if tier == "quick" else 4}


def parse_json_records(b):
    s = b.decode("utf-8", "replace").strip()
    if not s:
        return []
    return json.loads(s)


def eval_pipe(case, chk):
    vd = Verdict()
    rng = Rng(case["cseed"], "pipe")
    if case.get("configs") is None:
        case["configs"] = [[{"sched": random_sched(rng, None), "batch": rng.choice([None, 1, 2, 3, 7]), "rtseed": rng.randint(1, 1 << 30),
                             "chunk": ({"max": rng.choice([1, 3, 64]), "mode": "random", "seed": rng.randint(1, 99999)} if rng.chance(0.4) else None)}
                            for _ in range(len(case["verbs"]) + 1)] for _ in range(case["nconf"])]
        if case.get("preempt"):
            for cfgset in case["configs"]:
                cfgset[0]["sched"] = dict(cfgset[0]["sched"], preempt=rng.choice([2, 5, 20]))
                cfgset[0]["batch"] = rng.choice([1, 2, 3])
    text = case["text"].encode()

    def run(args, cfg, files=None, stdin=None):
        a = [args[0]] + (["--records-per-batch", str(cfg["batch"])] if cfg.get("batch") else []) + args[1:]
        r = chk.pool.run1(mkspec(a, sched=cfg["sched"], chunk=cfg.get("chunk"), rtseed=cfg.get("rtseed", 1), files=files, stdin=stdin))
        vd.runs.append(r)
        return r

    for cfgset in case["configs"]:
        whole = run(["mlr", "--json"] + gen.chain_args(case["verbs"]) + ["in.json"], cfgset[0], files={"in.json": text})
        if whole.status != "exit":
            vd.add("no-termination" if whole.status in ("deadlock", "livelock") else whole.status, where="then-chain", blocked=whole.blocked[:10])
            break
        if whole.code != 0 or b"(error)" in whole.stdout:
            vd.skipped = "chain-fails-or-error-values"
            return vd
        data = text
        ok = True
        for i, v in enumerate(case["verbs"]):
            if i == 0:
                st = run(["mlr", "--json"] + v + ["in.json"], cfgset[i + 1], files={"in.json": data})
            else:
                st = run(["mlr", "--json"] + v, cfgset[i + 1], stdin=data)
            if st.status != "exit":
                vd.add("no-termination" if st.status in ("deadlock", "livelock") else st.status, where="stage %d" % i, blocked=st.blocked[:10])
                ok = False
                break
            if st.code != 0 or b"(error)" in st.stdout:
                vd.skipped = "stage-fails-or-error-values"
                return vd
            data = st.stdout
        if not ok:
            break
        try:
            a, b = parse_json_records(whole.stdout), parse_json_records(data)
        except ValueError:
            vd.skipped = "unparseable-json"
            return vd
        if a != b:
            i = 0
            while i < min(len(a), len(b)) and a[i] == b[i]:
                i += 1
            vd.add("then-differs-from-pipe", verbs=case["verbs"], index=i, then=a[i] if i < len(a) else None, piped=b[i] if i < len(b) else None,
                   n_then=len(a), n_piped=len(b), configs=json.loads(json.dumps(cfgset)))
            break
    return vd


# ---------------------------------------------------------------- plumbing

def evaluate(case, chk):
    return {"book": eval_book, "source": eval_source, "pipe": eval_pipe}[case["kind"]](case, chk)


def cases(rng, tier):
    i = 0
    while True:
        i += 1
        r = rng.fork("c05", i)
        yield [build_book, build_source, build_pipe][i % 3](r, tier)


def sample_of(case, verdict):
    s = {"kind": case["kind"]}
    if case["kind"] == "book":
        s.update({"args": case["args"], "file_sizes": {k: len(v) for k, v in case["files"].items()}, "batch": case["batch"], "model_tail": case["model"][-2:]})
    elif case["kind"] == "source":
        s.update({"fmt": case["fmt"], "verbs": case["verbs"], "sources": [v["src"] for v in case.get("variants", [])]})
    else:
        s.update({"verbs": case["verbs"], "input_bytes": len(case["text"])})
    s["runs"] = [{"status": r.status, "code": r.code, "steps": r.steps, "policy": (r.spec.get("sched") or {}).get("policy")} for r in verdict.runs[:6]]
    return s


def known_match(case, klass, detail, known):
    for kf in known:
        if kf.get("status") == "known" and kf.get("class") == klass:
            pred = kf.get("predicate", "")
            if pred.startswith("src:") and (detail.get("variant") or {}).get("src") in pred[4:].split(","):
                return kf["id"]
    return None


def shrink_candidates(case):
    for key in ("configs", "variants"):
        xs = case.get(key) or []
        if len(xs) > 2:
            for i in range(1, len(xs)):
                c = dict(case)
                c[key] = [xs[0], xs[i]] if key == "variants" else [xs[i]]
                yield c
