"""C18 (reader/stream part) - no corrupted, truncated or failing input stream makes Miller panic or hang."""
import json

import c04
from checklib import Verdict
from simlib import Rng, mkspec, random_sched

PROPERTY = "C18"
LEVEL = "exploration"
BUDGET = {"quick": 75, "thorough": 1500}
MIN_CASES = {"quick": 6000}  # see checklib.Check: quick goes on to this many cases on a loaded machine (up to 3x its budget)
RULE = ("cases: a valid document for one of the readers (csv, csvlite, tsv, json, jsonl, dkvp, nidx, xtab, pprint, barred pprint, "
        "markdown, usv, asv, yaml, recutils/dcf, gzip/zlib/bzip2-wrapped) x reader options (separators, multi-char IFS/IRS, regex "
        "separators, implicit header, ragged, lazy quotes, comments, BOM, dedupe) with 1-4 stored-byte faults (truncate@k, bit "
        "flip, overwrite with quote/separator/CR/LF/NUL/0xFF/BOM/brace, insert, delete, duplicate a range) and/or a read "
        "fault (sticky EIO@k), presented as file or simulated stdin under read chunking 1..n, small bufio sizes, batch sizes "
        "and seeded schedules. Oracle: exit 0, or exit != 0 with an mlr diagnostic; never a Go panic/fatal error, never "
        "deadlock, never more than the tick / CPU budget. Non-trivial = a byte or read fault was applied and the scheduler "
        "had a choice; distinct = distinct (case hash, trace hash).")
ASSUMPTIONS = [
    "claimed for the reader/stream part only: DSL-text fuzzing and the function x argument-kind matrix are pure functions of a string / kind tuple and are not simulation targets",
    "tick budget = max(5e6, 1e4 x fault-free ticks); loops inside vendored decoders are bounded by a CPU-time limit per process instead",
]
COMPONENTS = c04.COMPONENTS

WORDS = ["pan", "eks", "wye", "zee", "a b", "x,y", "q\"r", "", "0x1F", "-1.5e3", "long" * 12, "\u00fc\u00f1\u00ee", "tab\there", "semi;colon", "eq=ual", "pipe|bar", "#hash", "#x,y", "y", "yx", ";", "b", "back\\slash",
         "C:\\Users\\", "trail\\", "\\", "a\\tb\\", "\\\\", "\\n\\"]


def records(r, n, safe, sparse=False):
    recs = []
    nf = r.choice([1, 2, 3, 4, 5, 5, 9, 12])
    names = ["a", "b", "c", "d", "e", "f", "g", "h", "i", "j", "k", "l"][:nf]
    if r.chance(0.15) and nf > 1:
        # repeated field names (deduplicated by default; kept with --no-dedupe-field-names)
        names = [r.choice(names[:max(1, nf // 2)]) if r.chance(0.5) else nm for nm in names]
    for i in range(n):
        rec = []
        for nm in names:
            w = r.choice(WORDS)
            if safe:
                w = "".join(ch for ch in w if ch.isalnum() or ch in "._-") or "v"
            rec.append((nm, w))
        if sparse and len(rec) > 1 and r.chance(0.35):
            rec.pop(r.below(len(rec)))
        recs.append(rec)
    return recs


def csvq(s, sep=","):
    if any(c in s for c in (sep, "\"", "\n", "\r")) or s == "":
        return "\"" + s.replace("\"", "\"\"") + "\""
    return s


def make_doc(r):
    """Returns (flags, text bytes, format name)."""
    fmt = r.choice(["csv", "csv", "csvlite", "tsv", "json", "json", "jsonl", "dkvp", "nidx", "xtab", "pprint", "pprint_barred", "markdown", "usv", "asv",
                    "yaml", "recutils", "dcf", "csv_opts", "dkvp_opts", "nidx_opts", "dkvpx", "dkvpx", "pprint_barred", "tsv", "csvlite", "pprint_fixed", "pprint_fixed"])
    n = r.choice([1, 2, 3, 6, 15])
    safe = fmt not in ("csv", "json", "jsonl", "csv_opts", "yaml", "dkvpx", "tsv")
    recs = records(r, n, safe, sparse=fmt in ("dkvp", "dkvp_opts", "json", "jsonl", "xtab", "yaml", "dkvpx", "recutils", "dcf") and r.chance(0.3))
    flags = []
    if fmt in ("csv", "csv_opts", "csvlite"):
        sep = ","
        flags = ["--icsv"] if fmt != "csvlite" else ["--icsvlite"]
        if fmt == "csv_opts":
            sep = r.choice([";", "|", "\t", ";;", ","])
            opt = r.choice(["ifs", "implicit", "ragged", "lazy", "comments", "bom", "trim", "irs", "dedupe", "headerless"])
            if sep != ",":
                flags += ["--ifs", sep]
            if opt == "implicit":
                flags += ["--implicit-csv-header"]
            elif opt == "ragged":
                flags += ["--allow-ragged-csv-input"]
            elif opt == "lazy":
                flags += ["--lazy-quotes"]
            elif opt == "comments":
                flags += [r.choice(["--pass-comments", "--skip-comments"])]
            elif opt == "trim":
                flags += ["--csv-trim-leading-space"]
            elif opt == "dedupe":
                flags += ["--no-dedupe-field-names"]
        if len(set(k for k, _ in recs[0])) < len(recs[0]) and "--no-dedupe-field-names" not in flags and r.chance(0.6):
            flags += ["--no-dedupe-field-names"]
        hdr = [k for k, _ in recs[0]]
        lines = [sep.join(hdr)] + [sep.join(csvq(v, sep) for _, v in rec) for rec in recs]
        if "--pass-comments" in flags or "--skip-comments" in flags:
            lines.insert(r.randint(0, len(lines)), "# a comment, with \"quotes")
        text = "\n".join(lines) + "\n"
        if "bom" in flags or (fmt == "csv_opts" and r.chance(0.2)):
            text = "\ufeff" + text
        if r.chance(0.15):
            text = text.replace("\n", "\r\n")
    elif fmt == "dkvpx":
        flags = ["-i", "dkvpx"]
        q = lambda v: ("\"" + v.replace("\"", "\"\"") + "\"") if any(c in v for c in ",=\"\n ") or v == "" else v
        text = "".join(",".join("%s=%s" % (q(k), q(v)) for k, v in rec) + "\n" for rec in recs)
        if r.chance(0.3):
            text = text[:-1]
    elif fmt == "tsv":
        flags = ["--itsv"] + r.choice([[], [], [], ["--implicit-tsv-header"], ["--allow-ragged-csv-input"], ["--implicit-tsv-header", "--allow-ragged-csv-input"]])
        raw_bs = r.chance(0.3)  # backslashes left as they are: a lone backslash is data in TSV
        enc = lambda s: (s if raw_bs else s.replace("\\", "\\\\")).replace("\t", "\\t").replace("\n", "\\n")
        text = "\t".join(k for k, _ in recs[0]) + "\n" + "".join("\t".join(enc(v) for _, v in rec) + "\n" for rec in recs)
    elif fmt in ("json", "jsonl"):
        flags = ["--ijson"] if fmt == "json" else ["--ijsonl"]
        objs = []
        for rec in recs:
            d = dict(rec)
            if r.chance(0.3):
                d["nested"] = {"x": [1, 2, {"y": None}], "t": True}
            objs.append(d)
        if r.chance(0.25):
            # lines whose length sits on or next to a buffer-size boundary (the decoder's and the comment-stripping
            # reader's buffers start at 512 bytes and double)
            for o in objs[:r.randint(1, 3)]:
                target = r.choice([511, 512, 513, 1023, 1024, 1025, 1535, 1536, 1537, 2047, 2048, 4095, 4096, 4097]) + r.choice([0, 0, -1, 1])
                o["pad"] = ""
                base = len(json.dumps(o))
                if target > base:
                    o["pad"] = "x" * (target - base)
        if fmt == "json":
            text = json.dumps(objs, indent=r.choice([None, 1]), ensure_ascii=r.chance(0.5))
            if r.chance(0.4):
                text = "\n".join(json.dumps(o) for o in objs)  # concatenated objects without brackets
        else:
            text = "".join(json.dumps(o) + "\n" for o in objs)
        if r.chance(0.3):
            flags = flags + [r.choice(["--skip-comments", "--pass-comments", "--skip-comments-with", "--pass-comments-with"])]
            if flags[-1].endswith("-with"):
                flags.append(r.choice(["#", "//", "%%"]))
            if r.chance(0.5):
                ls = text.split("\n")
                ls.insert(r.below(len(ls) + 1), (flags[-1] if not flags[-1].startswith("--") else "#") + " a comment")
                text = "\n".join(ls)
    elif fmt in ("dkvp", "dkvp_opts"):
        ifs, ips = ",", "="
        if fmt == "dkvp_opts":
            ifs, ips = r.choice([(";", ":"), ("|", "="), (";;", "::"), (" ", "=")])
            flags = ["--ifs", ifs, "--ips", ips]
            if r.chance(0.3):
                flags = ["--ifs-regex", "[;|]+", "--ips-regex", "[:=]+"]
                ifs, ips = ";", ":"
            if r.chance(0.3):
                flags += ["--irs", r.choice([";\n", "\r\n", "|", ";;", "xy", "aab"])]
        if len(set(k for k, _ in recs[0])) < len(recs[0]) and r.chance(0.6):
            flags = flags + ["--no-dedupe-field-names"]
        irs = flags[flags.index("--irs") + 1] if "--irs" in flags else "\n"
        text = "".join(ifs.join("%s%s%s" % (k, ips, v) for k, v in rec) + irs for rec in recs)
    elif fmt in ("nidx", "nidx_opts"):
        flags = ["--inidx", "--ifs", " "]
        if fmt == "nidx_opts":
            flags = r.choice([["--inidx", "--ifs", " ", "--repifs"], ["--inidx", "--ifs-regex", "[ \\t]+"], ["--inidx", "--ifs", ","]])
        sep = "," if flags[-1] == "," else " "
        text = "".join(sep.join(v or "-" for _, v in rec) + "\n" for rec in recs)
    elif fmt == "xtab":
        flags = ["--ixtab"] + (["--ips", ":"] if r.chance(0.2) else [])
        ps = ":" if "--ips" in flags else " "
        text = "\n".join("".join("%s%s%s\n" % (k, ps, v or "-") for k, v in rec) for rec in recs)
        if r.chance(0.2):
            # XTAB's line separator is the IFS: a multi-character one
            flags += ["--ifs", ";;"]
            text = text.replace("\n", ";;")
    elif fmt == "pprint_fixed":
        # fixed-width columns, located by the header line or given as widths
        hdr = [k for k, _ in recs[0]]
        rows = [hdr] + [[v for _, v in rec] for rec in recs]
        w = [max(len(row[i]) for row in rows if i < len(row)) + r.choice([1, 2, 4]) for i in range(len(hdr))]
        text = "".join("".join((row[i] if i < len(row) else "").ljust(w[i]) for i in range(len(hdr))).rstrip() + "\n" for row in rows)
        flags = r.choice([["--ipprint", "--fw"], ["--ipprint", "--fixed", "left-align"], ["--ipprint", "--fixed", "right-align"],
                          ["--ipprint", "--fixed", "widths:" + ",".join(str(x) for x in w)], ["--ipprint", "--fixed", "widths:" + ",".join(str(x) for x in w[:-1])]])
    elif fmt in ("pprint", "pprint_barred"):
        hdr = [k for k, _ in recs[0]]
        rows = [hdr] + [[v or "-" for _, v in rec] for rec in recs]
        w = [max(len(row[i]) for row in rows) for i in range(len(hdr))]
        if fmt == "pprint":
            flags = ["--ipprint"]
            text = "".join(" ".join(c.ljust(w[i]) for i, c in enumerate(row)).rstrip() + "\n" for row in rows)
        else:
            flags = ["--ipprint", "--barred-input"]
            bar = "+" + "+".join("-" * (x + 2) for x in w) + "+\n"
            text = bar + "".join("| " + " | ".join(c.ljust(w[i]) for i, c in enumerate(row)) + " |\n" + (bar if j == 0 else "") for j, row in enumerate(rows)) + bar
    elif fmt == "markdown":
        flags = ["--imd"]
        hdr = [k for k, _ in recs[0]]
        text = "| " + " | ".join(hdr) + " |\n| " + " | ".join("---" for _ in hdr) + " |\n" + "".join("| " + " | ".join(v or "-" for _, v in rec) + " |\n" for rec in recs)
    elif fmt in ("usv", "asv"):
        flags = ["--iusv"] if fmt == "usv" else ["--iasv"]
        fs, rs = ("\u241f", "\u241e") if fmt == "usv" else ("\x1f", "\x1e")
        text = fs.join(k for k, _ in recs[0]) + rs + "".join(fs.join(v for _, v in rec) + rs for rec in recs)
    elif fmt == "yaml":
        flags = ["--iyaml"]
        text = "".join("- " + "\n  ".join("%s: %s" % (k, json.dumps(v)) for k, v in rec) + "\n" for rec in recs)
    else:  # recutils / dcf
        flags = ["--irecutils"] if fmt == "recutils" else ["--idcf"]
        text = "\n".join("".join("%s: %s\n" % (k, v or "x") for k, v in rec) for rec in recs)
    if fmt in ("pprint", "pprint_barred", "tsv", "csvlite", "markdown", "usv", "asv", "nidx", "xtab") and r.chance(0.4):
        flags = flags + [r.choice(["--implicit-csv-header", "--allow-ragged-csv-input", "--implicit-tsv-header",
                                   "--pass-comments", "--skip-comments", "--no-dedupe-field-names", "--repifs", "--lazy-quotes", "-S", "-A", "-O"])]
    if r.chance(0.12):
        # degenerate values of reader options: still "any reader options" of the property
        flags = flags + r.choice(DEGENERATE)
    return flags, text.encode("utf-8"), fmt


DEGENERATE = [["--ifs", ""], ["--ips", ""], ["--irs", ""], ["--ifs-regex", ""], ["--ips-regex", ""], ["--ifs-regex", "("], ["--ips-regex", "[a-"],
              ["--ifs", "\\"], ["--ifs", "\\x"], ["--ips", "\\"], ["--irs", "\\"], ["--ifs", "\n"], ["--ips", "\n"], ["--irs", "a"],
              ["--fixed", "abc"], ["--fixed", "widths:"], ["--fixed", "widths:0"], ["--fixed", "widths:1,9223372036854775807"], ["--fixed", "widths:a"],
              ["--fixed", "widths:3,2"], ["--fixed", "left-align"], ["--fixed", "right-align-multi-word"], ["--fw"], ["--fixed", ""],
              ["--pass-comments-with", ""], ["--skip-comments-with", ""], ["--pass-comments-with", "ab"], ["--skip-comments-with", "\n"],
              ["--records-per-batch", "0"], ["--records-per-batch", "-1"], ["--nr-progress-mod", "0"], ["--nr-progress-mod", "-3"],
              ["--ifs", "semicolon", "--ips", "semicolon"], ["--ifs", "a", "--ips", "a"], ["--ifs", "\"", "--quote-all"], ["--ifs", "\r"],
              ["--implicit-csv-header", "--headerless-csv-input"], ["--allow-ragged-csv-input", "--implicit-csv-header"], ["--repifs", "--ifs", ""],
              ["--igen", "--gen-step", "0"], ["--igen", "--gen-start", "2", "--gen-stop", "9", "--gen-step", "0.0"], ["--igen", "--gen-start", "x"],
              ["--igen", "--gen-stop", "3", "--gen-step", "-1"], ["--igen", "--gen-start", "5", "--gen-stop", "5", "--gen-step", "0"],
              ["--ifs", "\u00e9"], ["--ifs", "\xff"], ["--ips", "\xff\xfe"], ["--irs", "\xff"]]


SPECIAL = [b"\"", b",", b"\t", b"\r", b"\n", b"\x00", b"\xff", b"\xef\xbb\xbf", b"{", b"}", b"[", b"]", b":", b"=", b" ", b"\\", b"#", b"|", b"-", b"\xc3", b"\xe2\x90",
           b"\"\"", b"\n\n", b"\r\n", b";", b"+", b"'"]


FMT_SEP = {"csv": b",", "csvlite": b",", "csv_opts": b",", "tsv": b"\t", "dkvp": b",", "nidx": b" ", "pprint": b" ", "pprint_fixed": b" ", "xtab": b" ",
           "usv": "\u241f".encode(), "asv": b"\x1f", "markdown": b"|", "pprint_barred": b"|", "dkvpx": b","}


def sepline(r, data, fmt, k):
    """A line made of field separators only, with fewer, as many or more fields than its neighbours."""
    sep = FMT_SEP[fmt] if fmt in FMT_SEP and r.chance(0.8) else r.choice([b",", b"\t", b" ", b";", b"|", b"=", b":"])
    line = sep * r.choice([1, 2, 3, 4, 5, 8, 13])
    pos = data.find(b"\n", k)
    pos = len(data) if pos < 0 else pos + 1
    return data[:pos] + line + r.choice([b"\n", b"\n", b"\r\n", b""]) + data[pos:], "sepline@%d %r" % (pos, line)


def mutate(r, data, fmt=None):
    kind = r.choice(["truncate", "flip", "overwrite", "insert", "delete", "duplicate", "overwrite", "insert", "sepline", "mbline"])
    if not data:
        return data + r.choice(SPECIAL), "insert@0"
    k = r.below(len(data))
    if kind == "mbline":
        # a line (or the rest of one) of well-formed multi-byte characters: shorter in characters than in bytes
        mb = r.choice(["\u6771\u4eac\u90fd\u6e2f\u533a", "\u00e9\u00e8\u00fc", "\u2192\u21d2", "\U0001f600\U0001f601", "a\u0301\u0302", "\u6771 \u4eac",
                       "x\u3000y"]).encode() * r.choice([1, 1, 2, 5])
        end = data.find(b"\n", k)
        end = len(data) if end < 0 else end
        start = data.rfind(b"\n", 0, k) + 1 if r.chance(0.6) else k
        return data[:start] + mb + data[end:], "mbline@%d+%d" % (start, len(mb))
    if kind == "sepline":
        return sepline(r, data, fmt, k)
    if kind == "truncate":
        return data[:k], "truncate@%d" % k
    if kind == "flip":
        b = bytearray(data)
        b[k] ^= 1 << r.below(8)
        return bytes(b), "flip@%d" % k
    if kind == "overwrite":
        s = r.choice(SPECIAL)
        return data[:k] + s + data[k + len(s):], "overwrite@%d" % k
    if kind == "insert":
        s = r.choice(SPECIAL) * r.choice([1, 1, 1, 3, 50])
        return data[:k] + s + data[k:], "insert@%d" % k
    if kind == "delete":
        m = r.randint(1, 4)
        return data[:k] + data[k + m:], "delete@%d+%d" % (k, m)
    m = r.randint(1, max(1, min(40, len(data) - k)))
    return data[:k] + data[k:k + m] * r.choice([2, 3, 30]) + data[k + m:], "duplicate@%d+%d" % (k, m)


def build_verbs_case(r, tier):
    """Heterogeneous (sparse, mixed-type) but well-formed records through 1-3 verbs of the catalogue: what damaged input
    degenerates to, generated directly.  Same oracle: no panic, no hang."""
    import gen
    n = r.choice([1, 2, 3, 5, 8, 20])
    recs = gen.gen_records(r, n, sparse=True, wide=r.chance(0.15))
    for rec in recs:
        for _ in range(r.choice([0, 0, 1, 2])):
            if len(rec) > 1:
                rec.pop(r.below(len(rec)))
        if r.chance(0.2):
            k = r.below(len(rec))
            rec[k] = (rec[k][0], r.choice(["", "abc", "-", "0x", "1e", "NaN", "Inf", "-0", "true", "1_000", "9223372036854775808", "{}", "[1]"]))
    if r.chance(0.1):
        recs.insert(r.below(len(recs) + 1), [])
    fmt = r.choice(["dkvp", "json"])
    text = gen.to_dkvp(recs) if fmt == "dkvp" else gen.to_json([rec for rec in recs])
    vs = [r.choice(gen.BY_TAG[r.choice(["S", "S", "N", "N", "P"])])(r) for _ in range(r.randint(1, 3))]
    if r.chance(0.4):
        # stages of the same kind side by side (regex, formatting, grouping): what they share behind the scenes is used
        # by several goroutines at once
        pool = gen.SAME_KIND[1] if r.chance(0.5) else r.choice(gen.SAME_KIND)
        vs = [r.choice(pool)(r) for _ in range(r.randint(2, 3))]
    vs = [v for v in vs if v[0] not in ("seqgen", "tee", "split")] or [["cat"]]
    return {"kind": "verbs", "fmt": "verbs-" + fmt, "flags": ["--ijson"] if fmt == "json" else [], "data": text, "name": "in.dat", "mutations": [], "faults": [],
            "verbs": gen.chain_args(vs), "oflags": r.choice([["--ojson"], [], ["--oxtab"], ["--opprint"], ["--ocsvlite"]]), "stdin": False,
            "cseed": r.randint(1, 1 << 40), "nconf": 2, "big": False}


def build_join_case(r, tier):
    """join's own reader of the left file: the same (damaged, commented) documents, options inherited from the main flags."""
    flags, data, fmt = make_doc(r)
    orig = data
    muts = []
    lines = data.split(b"\n")
    if r.chance(0.7) and fmt not in ("json", "yaml", "usv", "asv"):
        for _ in range(r.choice([1, 1, 2, 3])):
            lines.insert(r.below(len(lines) + 1), r.choice([b"#hello", b"# a=1,b=2", b"#", b"#\"quote"]))
        data = b"\n".join(lines)
        muts.append("comments")
        if not any(f in flags for f in ("--pass-comments", "--skip-comments")):
            flags = flags + [r.choice(["--pass-comments", "--pass-comments", "--skip-comments"])]
    for _ in range(r.choice([0, 0, 1, 2])):
        data, what = mutate(r, data)
        muts.append(what)
    j = ["join", "-j", r.choice(["a", "a", "b", "1", "a,b"])] + r.choice([[], ["--ul"], ["--ul", "--ur"], ["--np", "--ul"]]) + (["-s"] if r.chance(0.5) else []) + ["-f", "left.dat"]
    return {"kind": "join", "fmt": "join-" + fmt, "flags": flags, "data": orig.decode("latin1"), "name": "in.dat", "mutations": muts, "faults": [],
            "extra_files": {"left.dat": data.decode("latin1")}, "verbs": j, "oflags": r.choice([["--ojson"], [], ["--oxtab"]]), "stdin": False,
            "cseed": r.randint(1, 1 << 40), "nconf": 3, "big": False}


def build_case(r, tier):
    if r.chance(0.2):
        return build_verbs_case(r, tier)
    if r.chance(0.08):
        return build_join_case(r, tier)
    flags, data, fmt = make_doc(r)
    muts = []
    nm = r.choice([0, 1, 1, 1, 2, 2, 4])
    orig = data
    for _ in range(nm):
        data, what = mutate(r, data, fmt)
        muts.append(what)
    if fmt in FMT_SEP and data and (any("implicit" in f or "ragged" in f or "headerless" in f for f in flags) and r.chance(0.4) or r.chance(0.03)):
        # header handling is where a line's field count matters most: separator-only lines there more often
        data, what = sepline(r, data, fmt, r.below(len(data)))
        muts.append(what)
    big = False
    if fmt in ("json", "jsonl", "yaml") and r.chance(0.06):
        # unbalanced brackets, a lot of them: recursion depth of the decoder is input-controlled
        opener = r.choice([b"[", b"{\"a\":", b"[{\"a\":", b"[[", b"{\"a\":["] if fmt != "yaml" else [b"[", b"{a: ", b"- "])
        depth = r.choice([300, 20000, 20000, 3000000])
        k = r.below(len(data) + 1)
        data = data[:k] + opener * depth + data[k:]
        muts.append("nest@%d x%d %r" % (k, depth, opener))
        big = depth >= 100000
    wrap = r.choice(["", "", "", "", "gz", "z", "bz2"])
    name = "in.dat"
    if wrap and not big:
        import bz2
        import gzip
        import zlib
        comp = {"gz": lambda b: gzip.compress(b, mtime=0), "z": zlib.compress, "bz2": bz2.compress}[wrap](orig)
        # corrupt the compressed stream itself
        data = comp
        muts = []
        for _ in range(max(1, nm)):
            data, what = mutate(r, data)
            muts.append(wrap + ":" + what)
        name = "in.dat." + wrap
    faults = []
    if r.chance(0.25):
        faults = [{"kind": "read_err", "path": "in.dat" if r.chance(0.8) else "__stdin__", "at": r.below(max(1, len(data))), "errno": r.choice(["EIO", "EBADF"])}]
    verbs = r.choice([["cat"], ["cat"], ["sort", "-f", "a"], ["put", "$z = NF"], ["unsparsify"], ["head", "-n", "2"], ["sec2gmt", "a"], ["stats1", "-a", "count,mode", "-f", "a"],
                      ["skip-trivial-records"], ["cat", "then", "skip-trivial-records"]])  # the readers behave differently when skip-trivial-records is in the chain
    if any("sepline" in m for m in muts) and r.chance(0.5):
        verbs = r.choice([["skip-trivial-records"], ["skip-trivial-records", "then", "put", "$z = NF"], ["cat", "-n", "then", "skip-trivial-records"]])
    elif r.chance(0.35):
        # whatever the (damaged) input turns into - missing fields, odd types, empty records - goes through verbs too:
        # a Go panic there is just as much "dying on some input"
        import gen
        vs = [r.choice(gen.BY_TAG[r.choice(["S", "S", "N"])])(r) for _ in range(r.randint(1, 2))]
        vs = [v for v in vs if v[0] not in ("seqgen", "tee", "split")] or [["cat"]]
        verbs = gen.chain_args(vs)
    oflags = r.choice([["--ojson"], ["--ojson"], ["--ocsv"], [], ["--oxtab"], ["--opprint"], ["--otsv"]])
    stdin = r.chance(0.3) and not wrap
    return {"kind": "corrupt", "fmt": fmt, "flags": flags, "data": data.decode("latin1"), "name": name, "mutations": muts, "faults": faults,
            "verbs": verbs, "oflags": oflags, "stdin": stdin and not big, "cseed": r.randint(1, 1 << 40), "nconf": (3 if tier == "quick" else 6) if not big else 1,
            "big": big}


def evaluate(case, chk):
    vd = Verdict()
    pool = chk.pool
    data = case["data"].encode("latin1")
    args = ["mlr"] + case["flags"] + case["oflags"] + case["verbs"]
    kw = {}
    if case["stdin"]:
        kw["stdin"] = data
    else:
        args = args + [case["name"]]
        kw["files"] = {case["name"]: data}
        for k, v in (case.get("extra_files") or {}).items():
            kw["files"][k] = v.encode("latin1")
    if case.get("configs") is None:
        rng = Rng(case["cseed"], "cfg")
        cfgs = []
        for i in range(case["nconf"]):
            c = {"sched": random_sched(rng, None), "batch": rng.choice([None, 1, 2, 3]), "rtseed": rng.randint(1, 1 << 30)}
            if rng.chance(0.7) and not case.get("big"):
                c["chunk"] = {"max": rng.choice([1, 1, 2, 3, 7, 64]), "mode": rng.choice(["fixed", "random"]), "seed": rng.randint(1, 1 << 30)}
            if rng.chance(0.5) and not case.get("big"):
                c["knobs"] = {"bufr": rng.choice([16, 16, 17, 64])}
            if case["stdin"] and rng.chance(0.5) and data:
                arr, pos = [], 0
                while pos < len(data):
                    pos = min(len(data), pos + rng.randint(1, max(2, len(data) // 4)))
                    arr.append(pos)
                c["arrivals"] = arr
            cfgs.append(c)
        case["configs"] = cfgs
    for cfg in case["configs"]:
        a = [args[0]] + (["--records-per-batch", str(cfg["batch"])] if cfg.get("batch") else []) + args[1:]
        kw2 = dict(kw)
        if case["stdin"]:
            kw2["arrivals"] = cfg.get("arrivals")
        r = pool.run1(mkspec(a, sched=cfg["sched"], chunk=cfg.get("chunk"), knobs=cfg.get("knobs"), rtseed=cfg.get("rtseed", 1),
                             faults=case["faults"], max_ticks=20000000, **kw2))
        vd.runs.append(r)
        if case["mutations"] or r.fired:
            vd.notes["runs_with_fault_applied"] = vd.notes.get("runs_with_fault_applied", 0) + 1
        vd.notes["fmt:" + case["fmt"]] = 1
        cfgs_ = json.loads(json.dumps(cfg))
        if r.map_races:
            # the condition under which the Go runtime ends the real, parallel process with "fatal error: concurrent map
            # read and map write" (shared-map discipline check of the simulator, DESIGN section 12)
            vd.add("unsynchronised-shared-map", fmt=case["fmt"], flags=case["flags"], config=cfgs_, maps=r.map_races[:4])
            break
        if r.status == "panic":
            vd.add("panic", fmt=case["fmt"], flags=case["flags"], mutations=case["mutations"], config=cfgs_, text=r.panic_text[-1500:])
            break
        if r.status in ("deadlock", "livelock"):
            vd.add("hang", status=r.status, fmt=case["fmt"], flags=case["flags"], mutations=case["mutations"], config=cfgs_, blocked=r.blocked[:12], ticks=r.ticks)
            break
        if r.status == "exit" and r.code != 0 and b"mlr" not in r.stderr:
            vd.add("no-diagnostic", fmt=case["fmt"], flags=case["flags"], mutations=case["mutations"], config=cfgs_, code=r.code,
                   stderr=r.stderr[:300].decode("utf-8", "replace"))
            break
        if r.status == "exit" and r.code not in (0, 1):
            vd.add("abnormal-exit-code", fmt=case["fmt"], code=r.code, config=cfgs_, stderr=r.stderr[:300].decode("utf-8", "replace"))
            break
        if r.status == "exit" and (b"panic:" in r.stderr or b"goroutine " in r.stderr or b"runtime error" in r.stderr):
            vd.add("panic-text-on-stderr", fmt=case["fmt"], flags=case["flags"], mutations=case["mutations"], config=cfgs_,
                   stderr=r.stderr[:600].decode("utf-8", "replace"))
            break
    return vd


def cases(rng, tier):
    i = 0
    while True:
        i += 1
        yield build_case(rng.fork("c18", i), tier)


def sample_of(case, verdict):
    return {"fmt": case["fmt"], "flags": case["flags"], "mutations": case["mutations"], "faults": case["faults"], "stdin": case["stdin"],
            "data_head": case["data"][:160], "runs": [{"status": r.status, "code": r.code, "steps": r.steps, "ticks": r.ticks,
                                                        "stderr": r.stderr[:100].decode("utf-8", "replace")} for r in verdict.runs[:4]]}


def known_match(case, klass, detail, known):
    for kf in known:
        if kf.get("status") == "known" and kf.get("class") == klass and kf.get("predicate") == "fmt:" + case.get("fmt", ""):
            return kf["id"]
    return None


def shrink_candidates(case):
    cfgs = case.get("configs") or []
    if len(cfgs) > 1:
        for i in range(len(cfgs)):
            c = dict(case)
            c["configs"] = [cfgs[i]]
            yield c
    if len(cfgs) == 1:
        for key in ("chunk", "knobs", "arrivals"):
            if cfgs[0].get(key):
                c = dict(case)
                c2 = dict(cfgs[0])
                c2.pop(key)
                c["configs"] = [c2]
                yield c
    data = case["data"]
    if len(data) > 8:
        for keep in (data[:len(data) // 2], data[len(data) // 2:], data[:-1], data[1:]):
            c = dict(case)
            c["data"] = keep
            yield c
    if case.get("faults"):
        c = dict(case)
        c["faults"] = []
        yield c
