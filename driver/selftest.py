"""Determinism self-test: the same run spec, executed in fresh processes at GOMAXPROCS 1/4/16, must give the
same observation and the same trace hash.  `check selftest [reps] [specs-per-property]`."""
import hashlib
import importlib
import json
import sys

from checklib import Check
from simlib import Rng

import os
MODS = os.environ.get("SELFTEST_MODS", "c04,c17,c19,c20,c05,c13,c18,c01").split(",")


def obs(r):
    h = hashlib.sha256()
    h.update(r.stdout)
    h.update(b"|")
    h.update(r.stderr)
    for k in sorted(r.files):
        h.update(k.encode())
        h.update(r.files[k][0])
    return (r.status, r.code, r.steps, r.trace_hash, h.hexdigest()[:16], len(r.fired), r.stderr[:200], len(r.stdout))


def main(argv):
    reps = int(argv[0]) if argv else 30
    per = int(argv[1]) if len(argv) > 1 else 12
    total = div = 0
    for name in MODS:
        m = importlib.import_module(name)
        chk = Check(m, "quick", 7, budget_s=12)
        rec = []
        orig = chk.pool.run1

        def run1(spec, _orig=orig, _rec=rec, **kw):
            r = _orig(spec, **kw)
            if spec.get("mode") != "staged" and not r.children and len(_rec) < 4000:
                _rec.append(spec)
            return r
        chk.pool.run1 = run1
        chk.run_cases(m.cases(Rng(7, m.PROPERTY), "quick"))
        chk.pool.run1 = orig
        rng = Rng(11, name)
        specs = rng.sample(rec, per)
        bad = 0
        for spec in specs:
            jobs = [(spec, [1, 4, 16][i % 3]) for i in range(reps)]
            outs = list(chk.pool.ex.map(lambda j: obs(chk.pool.run1(j[0], gomaxprocs=j[1])), jobs))
            total += len(outs)
            if len(set(outs)) != 1:
                bad += 1
                div += 1
                print("NONDETERMINISTIC %s args=%s faults=%s" % (m.PROPERTY, json.dumps(spec.get("args"))[:300], json.dumps(spec.get("faults"))))
                for o in sorted(set(outs))[:4]:
                    print("   ", o, outs.count(o))
        print("%s: %d specs x %d processes (GOMAXPROCS 1/4/16): %d divergent" % (m.PROPERTY, len(specs), reps, bad))
        chk.pool.close()
    print("selftest: %d runs, %d divergent specs" % (total, div))
    return 1 if div else 0
