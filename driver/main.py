"""check <Cxx> quick|thorough | replay <file> | selftest | build"""
import importlib
import json
import os
import sys
import traceback

sys.path.insert(0, os.path.dirname(os.path.abspath(__file__)))

import build  # noqa: E402
from simlib import HarnessError, Rng  # noqa: E402

MODULES = {"C04": "c04", "C17": "c17", "C19": "c19", "C20": "c20", "C05": "c05", "C13": "c13", "C18": "c18", "C01": "c01"}


def main(argv):
    if len(argv) < 2:
        print(__doc__)
        return 2
    cmd = argv[1]
    try:
        if cmd == "build":
            print(build.build())
            return 0
        if cmd == "selftest":
            import selftest
            return selftest.main(argv[2:])
        if cmd == "replay":
            from checklib import Check
            with open(argv[2]) as f:
                rp = json.load(f)
            m = importlib.import_module(MODULES[rp["property"]])
            chk = Check(m, "quick", rp.get("seed", 0), budget_s=600)
            vd = m.evaluate(rp["case"], chk)
            chk.pool.close()
            hit = [(k, d) for k, d in vd.violations if k == rp["class"]]
            if hit:
                print("VIOLATION property=%s replay=%s" % (rp["property"], argv[2]))
                print("  class=%s detail=%s" % (hit[0][0], json.dumps(hit[0][1], default=str)[:3000]))
                return 1
            print("replay: class %s did not reproduce; got %s" % (rp["class"], [k for k, _ in vd.violations]))
            return 0
        prop = cmd.upper()
        if prop not in MODULES:
            print("unknown property", prop)
            return 2
        tier = argv[2] if len(argv) > 2 else os.environ.get("VERIF_TIER", "quick")
        seed = int(os.environ.get("VERIF_SEED", "1"))
        m = importlib.import_module(MODULES[prop])
        from checklib import Check
        budget = os.environ.get("VERIF_BUDGET")
        chk = Check(m, tier, seed, budget_s=float(budget) if budget else None)
        return m.run(chk) if hasattr(m, "run") else default_run(m, chk)
    except build.BuildError as e:
        sys.stderr.write("BUILD ERROR (exit 2, not a verdict): %s\n" % e)
        return 2
    except HarnessError as e:
        sys.stderr.write("HARNESS ERROR (exit 2, not a verdict): %s\n" % e)
        return 2
    except Exception:
        traceback.print_exc()
        sys.stderr.write("HARNESS ERROR (exit 2, not a verdict)\n")
        return 2


def default_run(m, chk):
    print("VERIF_SEED=%d tier=%s property=%s" % (chk.seed, chk.tier, chk.prop))
    chk.known_findings_pass()
    rng = Rng(chk.seed, chk.prop)
    chk.run_cases(m.cases(rng, chk.tier))
    return chk.finish()


if __name__ == "__main__":
    sys.exit(main(sys.argv))
