"""C20 - fan-out outputs are complete, ordered, well-formed for any number of targets."""
import json
import urllib.parse

import c04
import gen
from checklib import Verdict
from simlib import Rng, mkspec, random_sched

PROPERTY = "C20"
LEVEL = "exploration"
BUDGET = {"quick": 80, "thorough": 1500}
MIN_CASES = {"quick": 1500}  # see checklib.Check: quick goes on to this many cases on a loaded machine (up to 3x its budget)
RULE = ("cases: a history of (target, record) routings (round-robin, bursts, Zipf, long gaps; 1..3x the handle-cache "
        "capacity distinct targets, names needing escaping, pre-existing files for append) driven through split -g/-n/-m, "
        "the tee verb (then head / then a mutating verb) and put -q with tee/emit/emitp/emitf/print/printn/dump redirected "
        "with >, >> or | ; knob lru in {2,3,5,8,256} so that eviction and append-reopen run with a handful of targets; "
        "bufio sizes, batch sizes and all schedule policies. Oracle: an independent routing model (target -> sublist of "
        "the input, LRU model of evictions) + the same tree's staged output of the un-redirected statement on exactly "
        "that sublist. Non-trivial = scheduler had >=2 candidates; distinct = distinct (case hash, trace hash).")
ASSUMPTIONS = [
    "expected bytes of a target = pre-existing bytes (append) + what the same tree prints for the un-redirected statement on the routed sublist (R10)",
    "target names follow the documented rule: prefix, joiner, URL-escaped values, suffix, folder",
    "pipe targets use real /bin/sh children (uncontrolled timing; their byte streams are compared after the children are reaped)",
]
COMPONENTS = dict(c04.COMPONENTS)
COMPONENTS["real"] = COMPONENTS["real"] + ["/bin/sh + cat children for pipe targets (uncontrolled)"]

HEADED = ("csv", "tsv", "json", "pprint", "xtab", "markdown", "csvlite")
OFMT = {"dkvp": ["--odkvp"], "nidx": ["--onidx"], "jsonl": ["--ojsonl"], "csv": ["--ocsv"], "tsv": ["--otsv"], "json": ["--ojson"],
        "pprint": ["--opprint"], "xtab": ["--oxtab"], "markdown": ["--omd"], "csvlite": ["--ocsvlite"]}
SAFE_KEYS = ["k1", "k2", "k3", "k4", "k5", "k6", "k7", "k8", "k9", "ka", "kb", "kc", "kd", "ke", "kf", "kg", "kh", "ki", "kj", "kk", "kl", "km", "kn", "ko"]
ODD_KEYS = ["a b", "x&y", "p+q", "u%v", "semi;colon", "Z.z", "q?r", "tab_t", "e=f", "h#i"]


def key_sequence(r, keys, n):
    pat = r.choice(["rr", "burst", "zipf", "gap", "random"])
    seq = []
    if pat == "rr":
        for i in range(n):
            seq.append(keys[i % len(keys)])
    elif pat == "burst":
        while len(seq) < n:
            k = r.choice(keys)
            seq += [k] * r.randint(1, 5)
        seq = seq[:n]
    elif pat == "zipf":
        w = []
        for i, k in enumerate(keys):
            w += [k] * max(1, len(keys) // (i + 1))
        for i in range(n):
            seq.append(r.choice(w))
    elif pat == "gap":
        first = keys[0]
        seq = [first] + [keys[1 + i % max(1, len(keys) - 1)] if len(keys) > 1 else first for i in range(n - 2)] + [first]
    else:
        for i in range(n):
            seq.append(r.choice(keys))
    # every key at least once so that the number of targets is what was asked for
    for i, k in enumerate(keys):
        if k not in seq and i < len(seq):
            seq[r.below(len(seq))] = k
    return pat, seq


def render(fmt, recs):
    """Input text of a list of records (list of (k, v) lists) in the input format."""
    if fmt == "dkvp":
        return gen.to_dkvp(recs)
    if fmt == "json":
        return "[\n" + ",\n".join("{" + ", ".join("%s: %s" % (json.dumps(k), json.dumps(v)) for k, v in r) + "}" for r in recs) + "\n]\n"
    if fmt == "csv":
        if not recs:
            return ""
        return ",".join(k for k, _ in recs[0]) + "\n" + "".join(",".join(v for _, v in r) + "\n" for r in recs)
    raise ValueError(fmt)


IFLAGS = {"dkvp": [], "json": ["--ijson"], "csv": ["--icsv"]}


def lru_model(cap, accesses):
    """Returns the set of targets that were evicted and later revisited, and the max simultaneously open count."""
    order = []  # most recent first
    evicted = set()
    revisited = set()
    maxopen = 0
    for t in accesses:
        if t in order:
            order.remove(t)
            order.insert(0, t)
        else:
            if len(order) >= cap:
                ev = order.pop()
                evicted.add(ev)
            if t in evicted:
                revisited.add(t)
                evicted.discard(t)
            order.insert(0, t)
        maxopen = max(maxopen, len(order))
    return revisited, maxopen


def build_two_append(r, tier):
    """Two statements appending to one file. The property asks for the lines in stream order. Each statement has its own
    handler and buffer; with little output both flush once, at end of stream, and O_APPEND puts the two blocks one after
    the other, in either order: that outcome is the known finding C20-two-statements-one-file-grouped (all lines present,
    grouped per statement); anything else - lines missing, overwritten, torn - is an unlisted violation."""
    n = r.choice([1, 2, 5, 12])
    recs = [[("k", "k1"), ("id", str(i + 1)), ("v", r.choice(gen.VOCAB_A)), ("w", str(r.randint(0, 999)))] for i in range(n)]
    ofmt = r.choice(["dkvp", "jsonl", "nidx"])
    second = r.choice(["print >> \"both.out\", \"L\" . $id", "emit >> \"both.out\", {\"id\": $id}", "printn >> \"both.out\", $id . \";\""])
    first = r.choice(["tee >> \"both.out\", $*", "emit >> \"both.out\", mapexcept($*, \"w\")"])
    two_verbs = r.chance(0.3)
    verbs = [["put", "-q", first + "; " + second]] if not two_verbs else [["put", first], ["put", "-q", second]]
    return {"kind": "two_append", "lru": 256, "ifmt": "dkvp", "ofmt": ofmt, "pattern": "two", "recs": recs, "cseed": r.randint(1, 1 << 40), "batch": r.choice([None, 1, 2]),
            "nconf": 4 if tier == "quick" else 8, "pre": {"both.out": "PRE-EXISTING LINE\n"} if r.chance(0.6) else {}, "verbs": verbs, "first": first, "second": second,
            "args_tail": OFMT[ofmt]}


def eval_two_append(case, chk):
    vd = Verdict()
    pool = chk.pool
    text = render(case["ifmt"], case["recs"])
    files = {"input.dat": text.encode()}
    for k, v in case["pre"].items():
        files[k] = v.encode()
    blocks = []
    for stmt in (case["first"], case["second"]):
        plain = stmt.replace(">> \"both.out\", ", "").replace(">> \"both.out\",", "")
        if plain.startswith("tee "):
            plain = "emit mapsum($*, {})"
        r = pool.run1(mkspec(["mlr"] + case["args_tail"] + ["put", "-q", plain, "input.dat"], mode="staged", files={"input.dat": text.encode()}))
        vd.runs.append(r)
        if r.status != "exit" or r.code != 0:
            vd.skipped = "expected-unavailable"
            return vd
        blocks.append(r.stdout)
    pre = case["pre"].get("both.out", "").encode()
    ok = {pre + blocks[0] + blocks[1], pre + blocks[1] + blocks[0]}
    # "in stream order": with both statements in one put, record by record - the first statement's line, then the second's
    strict = None
    if len(case["verbs"]) == 1:
        p1 = blocks[0].splitlines(keepends=True)
        p2 = [x + b";" for x in blocks[1].split(b";")[:-1]] if case["second"].startswith("printn") else blocks[1].splitlines(keepends=True)
        if len(p1) == len(case["recs"]) == len(p2):
            strict = pre + b"".join(a + b for a, b in zip(p1, p2))
    args = main_args(case)
    if case.get("configs") is None:
        rng = Rng(case["cseed"], "cfg")
        case["configs"] = [{"sched": random_sched(rng, None), "batch": rng.choice([case["batch"], 1, None]), "rtseed": rng.randint(1, 1 << 30), "knobs": {"lru": 256}}
                           for _ in range(case["nconf"])]
    for cfg in case["configs"]:
        r = pool.run1(mkspec(with_batch(args, cfg.get("batch")), sched=cfg["sched"], files=files, knobs=cfg["knobs"], rtseed=cfg.get("rtseed", 1), snapshot=True))
        vd.runs.append(r)
        cfgs = json.loads(json.dumps(cfg))
        if r.status != "exit":
            vd.add("hang" if r.status in ("deadlock", "livelock") else r.status, status=r.status, config=cfgs, blocked=r.blocked[:10], text=r.panic_text[-500:])
            break
        if r.code != 0:
            vd.add("fails", config=cfgs, code=r.code, stderr=r.stderr[:300].decode("utf-8", "replace"))
            break
        got = r.files.get("both.out", (None, 0))[0]
        if got not in ok:
            vd.add("target-content-wrong", config=cfgs, target="both.out", two_appenders=True, got_len=len(got) if got is not None else None,
                   want_len=len(pre) + len(blocks[0]) + len(blocks[1]), got=(got or b"")[:300].decode("utf-8", "replace"))
            break
        if strict is not None and got != strict:
            # all the lines are there, but as one block per statement, not in the order in which the stream produced them
            vd.add("target-order-wrong", config=cfgs, target="both.out", grouped_per_statement=True, statements=[case["first"], case["second"]],
                   got=(got or b"")[:200].decode("utf-8", "replace"), want=strict[:200].decode("utf-8", "replace"))
            break
    vd.notes["two_appenders_cases"] = 1
    return vd


def build_main_and_end(r, tier):
    """One redirected statement, in a subroutine or function, used from the main block for every record and once more
    from the end block: the target is one document - everything routed to it, the end block's part last."""
    n = r.choice([1, 2, 5, 12, 40, 600])
    recs = [[("k", "k1"), ("id", str(i + 1)), ("v", r.choice(gen.VOCAB_A)), ("w", str(r.randint(0, 999)))] for i in range(n)]
    redir, tgt, name = r.choice([(">", "\"me.out\"", "me.out"), (">>", "\"me.out\"", "me.out"), ("|", "\"cat > me.out\"", "me.out"), (">", "\"me_\" . \"x\" . \".out\"", "me_x.out")])
    form = r.choice(["subr", "subr", "func"])
    if form == "subr":
        prog = "subr w(str s) { print %s %s, s } call w(\"r\" . $id); end { call w(\"trailer\") }" % (redir, tgt)
    else:
        prog = "func w(str s): num { print %s %s, s; return 1 } $z = w(\"r\" . $id); end { @z = w(\"trailer\") }" % (redir, tgt)
    pre = {name: "PRE-EXISTING LINE\n"} if r.chance(0.4) else {}
    want = (pre.get(name, "") if redir == ">>" else "") + "".join("r%d\n" % (i + 1) for i in range(n)) + "trailer\n"
    return {"kind": "main_and_end", "lru": 256, "ifmt": "dkvp", "ofmt": "dkvp", "pattern": "main+end", "recs": recs, "cseed": r.randint(1, 1 << 40), "batch": r.choice([None, 1, 2, 7]),
            "nconf": 3 if tier == "quick" else 6, "pre": pre, "verbs": [["put", "-q", prog]], "args_tail": [], "target": name, "append": redir == ">>", "children": redir == "|"}


def eval_main_and_end(case, chk):
    vd = Verdict()
    text = render(case["ifmt"], case["recs"])
    files = {"input.dat": text.encode()}
    for k, v in case["pre"].items():
        files[k] = v.encode()
    args = main_args(case)
    # (computed from the records, which shrinking may have cut down)
    want = (case["pre"].get(case["target"], "") if case["append"] else "") + "".join("r%s\n" % dict(rec)["id"] for rec in case["recs"]) + "trailer\n"
    if case.get("configs") is None:
        rng = Rng(case["cseed"], "cfg")
        case["configs"] = [{"sched": random_sched(rng, None), "batch": rng.choice([case["batch"], 1, None]), "rtseed": rng.randint(1, 1 << 30), "knobs": {"lru": 256}}
                           for _ in range(case["nconf"])]
    for cfg in case["configs"]:
        r = chk.pool.run1(mkspec(with_batch(args, cfg.get("batch")), sched=cfg["sched"], files=files, knobs=cfg["knobs"], rtseed=cfg.get("rtseed", 1), snapshot=True))
        vd.runs.append(r)
        cfgs = json.loads(json.dumps(cfg))
        if r.status == "child-stall":
            vd.skipped = "child-stall"
            continue
        if r.status != "exit":
            vd.add("hang" if r.status in ("deadlock", "livelock") else r.status, status=r.status, config=cfgs, blocked=r.blocked[:10], text=r.panic_text[-500:])
            break
        if r.code != 0:
            vd.add("fails", config=cfgs, code=r.code, stderr=r.stderr[:300].decode("utf-8", "replace"))
            break
        got = r.files.get(case["target"], (None, 0))[0]
        if got != want.encode():
            vd.add("target-content-wrong", config=cfgs, target=case["target"], main_and_end=True, got_len=len(got) if got is not None else None,
                   want_len=len(want), got=(got or b"")[:200].decode("utf-8", "replace"), want=want[:200])
            break
    vd.notes["main_and_end_cases"] = 1
    return vd


def build_case(r, tier):
    if r.chance(0.05):
        return build_two_append(r, tier)
    if r.chance(0.04):
        return build_main_and_end(r, tier)
    cap = r.choice([2, 3, 5, 8, 256])
    if cap == 256:
        ntargets = r.choice([1, 2, 5, 12])
    else:
        ntargets = r.choice([1, cap - 1, cap, cap + 1, 2 * cap, 3 * cap])
        ntargets = max(1, min(ntargets, 24))
    mode = r.choice(["split_g", "split_g", "split_m", "split_n", "tee_verb", "tee_verb", "dsl", "dsl", "dsl", "dsl", "pipe"])
    ifmt = r.choice(["dkvp", "dkvp", "json", "csv"])
    ofmt = r.choice(["dkvp", "nidx", "jsonl", "csv", "tsv", "json", "pprint", "xtab", "markdown", "dkvp", "csv", "json"])
    n = r.choice([ntargets, 2 * ntargets + 1, 5 * ntargets, 40, 97])
    n = max(1, min(n, 160))
    bulk = r.chance(0.04)
    if bulk:
        # thousands of records to one or two targets: whatever batching a target's writer does is then exercised
        ntargets = r.choice([1, 2])
        n = r.choice([1100, 2100, 3100])
        cap = 256
    odd = mode in ("split_g",) and r.chance(0.3)
    keys = (r.sample(ODD_KEYS, min(len(ODD_KEYS), ntargets)) + SAFE_KEYS)[:ntargets] if odd else SAFE_KEYS[:ntargets]
    pat, seq = key_sequence(r, keys, n)
    vocab = gen.VOCAB_A if ofmt != "tsv" or r.chance(0.3) else ["back\\slash", "tab\there", "x\\y\\", "\\", "pan", "a\tb\tc"]  # values the TSV writer must escape
    recs = [[("k", seq[i]), ("id", str(i + 1)), ("v", r.choice(vocab)), ("w", str(r.randint(0, 999)))] for i in range(n)]
    case = {"kind": mode, "lru": cap, "ifmt": ifmt, "ofmt": ofmt, "pattern": pat, "recs": recs, "cseed": r.randint(1, 1 << 40),
            "batch": r.choice([None, 1, 2, 3, 7]), "nconf": 4 if tier == "quick" else 8, "pre": {}}
    if bulk:
        case.update({"batch": r.choice([None, 500, 100]), "nconf": 3, "bulk": True})
    oflags = OFMT[ofmt]
    if mode == "split_g":
        prefix = r.choice([None, "out", "pre.fix"])
        suffix = r.choice([None, "dat", "x.y"])
        joiner = r.choice([None, "-", "__"])
        folder = r.choice([None, None, "outdir", "a/b"])
        app = r.chance(0.25)
        emitv = r.chance(0.25)
        v = ["split", "-g", "k"]
        if prefix:
            v += ["--prefix", prefix]
        if suffix:
            v += ["--suffix", suffix]
        if joiner:
            v += ["-j", joiner]
        if folder:
            v += ["--folder", folder]
        if app:
            v += ["-a"]
        if emitv:
            v += ["-v"]
        case.update({"verbs": [v] + ([["put", "$v = \"mutated\""]] if emitv and r.chance(0.6) else []), "split": {"prefix": prefix or "split", "suffix": suffix,
                     "joiner": joiner or "_", "folder": folder, "append": app, "emit": emitv}})
        if r.chance(0.2):
            # two grouping fields; different value tuples may read the same once joined with a comma
            tuples = [("a,b", "c"), ("a", "b,c"), ("x", "y"), ("x,y", ""), ("x", "y,"), ("p", "q")][:max(2, min(6, ntargets))]
            recs = [[("k", t[0]), ("k2", t[1])] + rec[1:] for rec, t in ((rec, tuples[i % len(tuples)] if pat == "rr" else r.choice(tuples)) for i, rec in enumerate(recs))]
            case["recs"] = recs
            case["ifmt"] = "json"
            v[v.index("-g") + 1] = "k,k2"
            case["split"]["two"] = True
    elif mode in ("split_m", "split_n"):
        cnt = r.choice([1, 2, 3, 5]) if mode == "split_n" else ntargets
        v = ["split", "-n" if mode == "split_n" else "-m", str(cnt), "--prefix", "sp", "--suffix", "out"]
        case.update({"verbs": [v], "count": cnt})
    elif mode == "tee_verb":
        app = r.chance(0.3)
        tail = r.choice([[], [["head", "-n", "2"]], [["put", "$v = \"mutated\""]], [["put", "-q", "true"]], [["sort", "-f", "v"], ["head", "-n", "1"]],
                         [["put", "$* = mapexcept($*, \"w\")"], ["head", "-n", "3"]], "second", "second", "second"])
        second = None
        if tail == "second":
            # "tee passes every record on even when a later head stops early": a second fan-out stage between the tee
            # verb and the head must therefore see the whole stream too
            second = r.choice(["tee_stmt", "split", "tee_verb", "print_stmt"])
            mid = {"tee_stmt": ["put", "tee > \"second.out\", $*"], "split": ["split", "-n", "100000", "--prefix", "second", "--suffix", "out"],
                   "tee_verb": ["tee", "second.out"], "print_stmt": ["put", "print > \"second.out\", $id"]}[second]
            tail = r.choice([[], [["cat"]]]) + [mid] + r.choice([[], [["cat", "-n"]]]) + [["head", "-n", str(r.choice([1, 2, 5]))]]
        case.update({"verbs": [["tee"] + (["-a"] if app else []) + ["tee_target.out"]] + tail, "append": app, "second": second})
        if app:
            case["pre"]["tee_target.out"] = "PRE-EXISTING LINE\n"
    elif mode in ("dsl", "pipe"):
        stmts = [
            ("tee", "tee {R} {T}, $*", "emit mapsum($*, {})"),
            ("emit", "emit {R} {T}, $*", "emit $*"),
            ("emit_lashed", "emit {R} {T}, mapexcept($*, \"w\")", "emit mapexcept($*, \"w\")"),
            ("emitp", "emitp {R} {T}, mapsum({\"id\": $id}, {\"sub\": {\"v\": $v, \"w\": $w}})", "emitp mapsum({\"id\": $id}, {\"sub\": {\"v\": $v, \"w\": $w}})"),
            ("emitf", "@idv = $id; @vv = $v; emitf {R} {T}, @idv, @vv", "@idv = $id; @vv = $v; emitf @idv, @vv"),
            ("print", "print {R} {T}, $id . \":\" . $v", "print $id . \":\" . $v"),
            ("printn", "printn {R} {T}, $id . \";\"", "printn $id . \";\""),
            ("dump", "dump {R} {T}, {\"id\": $id, \"v\": $v}", "dump {\"id\": $id, \"v\": $v}"),
            ("emit1", "emit {R} {T}, {\"id\": $id, \"k\": $k}", "emit {\"id\": $id, \"k\": $k}"),
        ]
        name, tmpl, plain = r.choice(stmts)
        app = r.chance(0.25) and mode == "dsl"
        if mode == "pipe":
            redir, tgt = "|", "\"cat > p_\" . $k . \".out\""
            if r.chance(0.2):
                # a command that takes its time: when mlr exits, everything it piped must have been dealt with
                # (as with pclose); the directory is looked at at that instant, before the children are reaped
                redir, tgt = "|", "\"sleep 0.2; cat > p_\" . $k . \".out\""
                case["slow_children"] = True
            if name in ("emit_lashed", "emitp", "emitf", "dump", "emit1"):
                name, tmpl, plain = stmts[r.choice([0, 1, 5])]
        else:
            redir, tgt = (">>" if app else ">"), "\"d_\" . $k . \".out\""
        # "computed target names": the same name, arrived at in different ways
        form = r.choice(["concat", "concat", "capture", "capture", "local", "format", "sub", "udf"])
        stem, pre_stmt, wrap = ("cat > p_" if mode == "pipe" else "d_"), "", None
        if mode == "pipe" and case.get("slow_children"):
            stem = "sleep 0.2; cat > p_"
        if form == "capture":
            # "\1" in a string literal is filled in from the most recent successful =~, per record
            tgt, wrap = "\"%s\\1.out\"" % stem, "if ($k =~ \"^(.*)$\") { %s }"
        elif form == "local":
            pre_stmt, tgt = "var tgtname = \"%s\" . $k . \".out\"; " % stem, "tgtname"
        elif form == "format":
            tgt = "format(\"%s{}.out\", $k)" % stem
        elif form == "sub":
            tgt = "sub($k, \"^(.*)$\", \"%s\\1.out\")" % stem
        elif form == "udf":
            pre_stmt, tgt = "func tgtname(str s): str { return \"%s\" . s . \".out\" } " % stem, "tgtname($k)"
        stmt = tmpl.replace("{R}", redir).replace("{T}", tgt)
        if wrap:
            stmt = wrap % stmt
        stmt = pre_stmt + stmt
        case["name_form"] = form
        post = r.choice(["", "", "; $v = \"mutated\"", "; unset $w"]) if name in ("tee", "emit") else ""
        verbs = [["put", "-q", stmt + post]]
        if post and r.chance(0.5):
            verbs = [["put", stmt + post], ["put", "$v = \"mutated2\""]]
        case.update({"verbs": verbs, "stmt": name, "plain": plain, "append": app, "redir": redir})
        if app:
            for k in keys[:max(1, len(keys) // 2)]:
                case["pre"]["d_%s.out" % k] = "PRE-EXISTING LINE\n"
    case["args_tail"] = oflags
    # write mode (not append): files left over from an earlier run must be replaced, whenever the target is first opened
    is_append = case.get("append") or (case.get("split") or {}).get("append")
    if not is_append and mode != "pipe" and r.chance(0.35):
        tm, _ = target_map(case)
        names = list(tm)
        case["stale"] = r.sample(names, max(1, len(names) // 2)) if r.chance(0.7) else names[-max(1, len(names) // 3):]
    return case


def target_map(case):
    """Independent routing model: ordered dict target file name -> list of record indices (0-based), and the access sequence."""
    recs = case["recs"]
    mode = case["kind"]
    acc = []
    tm = {}
    for i, rec in enumerate(recs):
        k = rec[0][1]
        if mode == "split_g":
            sp = case["split"]
            suffix = sp["suffix"] or case["ofmt"]
            fn = urllib.parse.quote_plus(k, safe="")
            if sp.get("two"):
                fn = fn + sp["joiner"] + urllib.parse.quote_plus(rec[1][1], safe="")
            fn = sp["prefix"] + sp["joiner"] + fn
            fn = fn + "." + suffix
            if sp["folder"]:
                fn = sp["folder"] + "/" + fn
        elif mode == "split_m":
            fn = "sp_%d.out" % (1 + i % case["count"])
        elif mode == "split_n":
            fn = "sp_%d.out" % (1 + i // case["count"])
        elif mode == "tee_verb":
            fn = "tee_target.out"
            if case.get("second"):
                tm.setdefault("second_1.out" if case["second"] == "split" else "second.out", []).append(i)
        elif mode == "dsl":
            fn = "d_%s.out" % k
        else:
            fn = "p_%s.out" % k
        tm.setdefault(fn, []).append(i)
        acc.append(fn)
    return tm, acc


def main_args(case, verbs=None, names=("input.dat",)):
    return ["mlr"] + IFLAGS[case["ifmt"]] + case["args_tail"] + gen.chain_args(verbs or case["verbs"]) + list(names)


def with_batch(args, batch):
    return [args[0]] + (["--records-per-batch", str(batch)] if batch else []) + list(args[1:])


def expected_for(case, idxs, chk, vd, fn=None):
    """Bytes the same tree prints for the un-redirected statement on exactly this sublist (staged)."""
    sub = [case["recs"][i] for i in idxs]
    if fn and fn.startswith("second") and case.get("second") == "print_stmt":
        return "".join(rec[1][1] + "\n" for rec in sub).encode()
    text = render(case["ifmt"], sub)
    if case["kind"] in ("dsl", "pipe"):
        verbs = [["put", "-q", case["plain"]]]
    else:
        verbs = [["cat"]]
    args = main_args(case, verbs)
    if case.get("stmt") in ("print", "printn", "dump"):
        # text statements do not depend on the output format; avoid the JSON writer's empty "[ ]" on stdout
        args = ["mlr"] + IFLAGS[case["ifmt"]] + ["--ojsonl"] + gen.chain_args(verbs) + ["input.dat"]
    r = chk.pool.run1(mkspec(args, mode="staged", files={"input.dat": text.encode()}))
    vd.runs.append(r)
    if r.status != "exit" or r.code != 0:
        return None
    return r.stdout


def tolerant_records(ofmt, data):
    """Parses a target that may contain several concatenated documents into a flat list (headed formats)."""
    text = data.decode("utf-8", "replace")
    if ofmt in ("csv", "tsv"):
        lines = text.split("\n")
        if not lines or lines[0] == "":
            return []
        hdr = lines[0]
        return [hdr] + [l for l in lines[1:] if l != hdr and l != ""]
    if ofmt == "json":
        dec = json.JSONDecoder()
        out = []
        pos = 0
        while True:
            while pos < len(text) and text[pos] in " \n\r\t":
                pos += 1
            if pos >= len(text):
                break
            obj, pos = dec.raw_decode(text, pos)
            if isinstance(obj, list):
                out += obj
            else:
                out.append(obj)
        return out
    return None


def evaluate(case, chk):
    if case["kind"] == "two_append":
        return eval_two_append(case, chk)
    if case["kind"] == "main_and_end":
        return eval_main_and_end(case, chk)
    vd = Verdict()
    pool = chk.pool
    text = render(case["ifmt"], case["recs"])
    files = {"input.dat": text.encode()}
    for k, v in case["pre"].items():
        files[k] = v.encode()
    tm, acc = target_map(case)
    for fn in case.get("stale") or []:
        if fn in tm and fn not in case["pre"]:
            files[fn] = b"STALE CONTENT FROM AN EARLIER RUN\n" * 3
    revisited, model_maxopen = lru_model(case["lru"], acc) if case["kind"] in ("split_g", "split_m", "dsl") else (set(), 1)
    args = main_args(case)
    # expected documents
    expected = {}
    for fn, idxs in tm.items():
        e = expected_for(case, idxs, chk, vd, fn)
        if e is None:
            vd.skipped = "expected-unavailable"
            return vd
        pre = case["pre"].get(fn, "").encode() if case.get("append") or (case.get("split") or {}).get("append") else b""
        expected[fn] = pre + e
    # main stream reference (staged run of the whole command in a scratch dir)
    ref = pool.run1(mkspec(args, mode="staged", files=files, knobs={"lru": 256}))
    vd.runs.append(ref)
    if ref.status != "exit" or ref.code != 0:
        vd.skipped = "ref:" + ref.status
        return vd
    if case.get("configs") is None:
        rng = Rng(case["cseed"], "cfg")
        pilot = pool.run1(mkspec(with_batch(args, case["batch"]), sched={"policy": "rtb", "seed": 1}, files=files, knobs={"lru": case["lru"]}))
        vd.runs.append(pilot)
        cfgs = []
        for i in range(case["nconf"]):
            c = {"sched": random_sched(rng, pilot.goroutines), "batch": rng.choice([case["batch"], 1, 2, None]) if not case.get("bulk") else case["batch"],
                 "rtseed": rng.randint(1, 1 << 30),
                 "knobs": {"lru": case["lru"]}}
            if rng.chance(0.5):
                c["knobs"]["bufw"] = rng.choice([16, 64, 4096])
            cfgs.append(c)
        if cfgs and not case.get("bulk"):
            # one run per case with frequent preemption inside functions: the target writers run the same formatting
            # code side by side
            cfgs[-1]["sched"] = dict(cfgs[-1]["sched"], preempt=rng.choice([2, 3, 5, 10]))
        if case["kind"] == "pipe" and cfgs:
            # a pipe target's command may take arbitrarily long: longer than any timer in the process
            cfgs[0]["sched"] = dict(cfgs[0]["sched"], timers_first=True)
        if case.get("bulk"):
            # keep each target's writer goroutine behind its producer
            writers = [g for g in pilot.goroutines if "file_output_handlers.go" in g]
            for i, c in enumerate(cfgs[:2]):
                if writers:
                    c["sched"] = {"policy": "random", "seed": rng.randint(1, 1 << 40), "starve": "=" + writers[i % len(writers)]}
                    c["knobs"] = {"lru": case["lru"]}
        case["configs"] = cfgs
    for cfg in case["configs"]:
        r = pool.run1(mkspec(with_batch(args, cfg.get("batch")), sched=cfg["sched"], files=files, knobs=cfg["knobs"], rtseed=cfg.get("rtseed", 1),
                             snapshot=True, fd_limit=(case["lru"] + 8) if case["kind"] != "pipe" else 0, snap_at_exit=bool(case.get("slow_children"))))
        if case.get("slow_children"):
            vd.notes["runs_snapshot_at_exit_with_slow_children"] = vd.notes.get("runs_snapshot_at_exit_with_slow_children", 0) + 1
        vd.runs.append(r)
        judge(case, vd, r, cfg, ref, tm, expected, revisited)
        if len(vd.violations) >= 2:
            break
    if revisited:
        vd.notes["cases_with_evicted_and_revisited_target"] = 1
        if case["ofmt"] in HEADED:
            vd.notes["headed_format_eviction_cases"] = 1
    return vd


def judge(case, vd, r, cfg, ref, tm, expected, revisited):
    cfgs = json.loads(json.dumps(cfg))
    if r.status in ("deadlock", "livelock"):
        vd.add("hang", status=r.status, config=cfgs, blocked=r.blocked[:14])
        return
    if r.status == "panic":
        vd.add("panic", config=cfgs, text=r.panic_text[-1000:])
        return
    if r.status == "child-stall":
        vd.skipped = "child-stall"
        return
    if r.status != "exit":
        return
    if r.code != 0:
        vd.add("fails", config=cfgs, code=r.code, stderr=r.stderr[:300].decode("utf-8", "replace"))
        return
    # (d) main stream as documented
    if r.stdout != ref.stdout:
        vd.add("main-stream-differs", config=cfgs, first_diff=c04.first_diff(ref.stdout, r.stdout))
        return
    # (c) no unexpected files, none missing
    produced = {k for k in r.files if k != "input.dat"}
    want = set(tm) | set(case["pre"])
    if produced != want:
        vd.add("target-set-differs", config=cfgs, missing=sorted(want - produced)[:6], unexpected=sorted(produced - want)[:6])
        return
    # (a)/(b) per target content
    for fn in tm:
        got = r.files[fn][0]
        exp = expected[fn]
        if got == exp:
            continue
        if fn in revisited and case["ofmt"] in HEADED:
            pre = case["pre"].get(fn, "").encode() if case.get("append") or (case.get("split") or {}).get("append") else b""
            tg = te = None
            try:
                tg = tolerant_records(case["ofmt"], got[len(pre):]) if got.startswith(pre) else None
                te = tolerant_records(case["ofmt"], exp[len(pre):])
            except Exception:
                tg = None
            if tg is not None and te is not None and tg == te:
                vd.add("document-restarted-after-eviction", config=cfgs, target=fn, ofmt=case["ofmt"], lru=case["lru"])
                continue
            if tg is None and te is None:
                # formats without a tolerant parser: fall back to record ids in order
                if ids_in_order(case, got) == ids_in_order(case, exp):
                    vd.add("document-restarted-after-eviction", config=cfgs, target=fn, ofmt=case["ofmt"], lru=case["lru"])
                    continue
        vd.add("target-content-wrong", config=cfgs, target=fn, evicted_revisited=fn in revisited, ofmt=case["ofmt"],
               first_diff=c04.first_diff(exp, got), exp_len=len(exp), got_len=len(got))
        return
    # (e) handle bound, (f) everything closed
    if case["kind"] in ("split_g", "split_m", "dsl") and r.max_open_w > case["lru"] + 1:
        vd.add("too-many-open-handles", config=cfgs, max_open=r.max_open_w, capacity=case["lru"])
    if r.open_w_at_end != 0 and case["kind"] != "pipe":
        vd.add("targets-left-open", config=cfgs, open_at_end=r.open_w_at_end)


def ids_in_order(case, data):
    """Record ids as they appear in a pprint/xtab/markdown target (weak, order-only)."""
    import re
    text = data.decode("utf-8", "replace")
    ids = []
    if case["ofmt"] == "xtab":
        for m in re.finditer(r"^id\s+(\d+)$", text, re.M):
            ids.append(m.group(1))
    else:
        for line in text.split("\n"):
            toks = [t for t in re.split(r"[\s|]+", line) if t]
            if len(toks) >= 2 and toks[1].isdigit():
                ids.append(toks[1])
    return ids


def cases(rng, tier):
    i = 0
    while True:
        i += 1
        yield build_case(rng.fork("c20", i), tier)


def sample_of(case, verdict):
    if case["kind"] in ("two_append", "main_and_end"):
        return {"kind": case["kind"], "args": main_args(case), "records": len(case["recs"]), "pre_existing": sorted(case["pre"])}
    tm, acc = target_map(case)
    return {"kind": case["kind"], "args": main_args(case), "lru": case["lru"], "targets": len(tm), "records": len(case["recs"]),
            "pattern": case["pattern"], "access_head": acc[:16], "pre_existing": sorted(case["pre"]),
            "runs": [{"status": r.status, "code": r.code, "steps": r.steps, "max_open": r.max_open_w} for r in verdict.runs if r.spec.get("mode") != "staged"][:5]}


def known_match(case, klass, detail, known):
    for kf in known:
        if kf.get("status") == "known" and kf.get("class") == klass:
            if kf.get("predicate") == "evicted-revisited-headed" and klass == "document-restarted-after-eviction":
                return kf["id"]
            if kf.get("predicate") == "two-statements-one-file-grouped" and klass == "target-order-wrong" and case.get("kind") == "two_append" \
                    and detail.get("grouped_per_statement"):
                return kf["id"]
    return None


def shrink_candidates(case):
    cfgs = case.get("configs") or []
    if len(cfgs) > 1:
        for i in range(len(cfgs)):
            c = dict(case)
            c["configs"] = [cfgs[i]]
            yield c
    recs = case["recs"]
    if len(recs) > 2:
        for keep in (recs[:len(recs) // 2], recs[len(recs) // 2:], recs[:-1]):
            c = dict(case)
            c["recs"] = keep
            yield c
