"""C13 (concurrent facet) - join pairs exactly the matching records, under every schedule of its two readers."""
import json

import c04
import gen
from checklib import Verdict
from simlib import Rng, mkspec, random_sched, starve_each

PROPERTY = "C13"
LEVEL = "exploration"
BUDGET = {"quick": 70, "thorough": 1200}
MIN_CASES = {"quick": 2500}  # see checklib.Check: quick goes on to this many cases on a loaded machine (up to 3x its budget)
RULE = ("cases: left file and right stream with duplicate, missing and empty join keys, every record carrying a unique id in a "
        "non-join field; option sets over -j/-l/-r, --lp/--rp, --np/--ul/--ur, --ignore-empty, -i fmt, -s (on key-sorted inputs), "
        "-u; each case runs the real pipeline (main reader + join's own left-file reader goroutine and its two 2-way selects) "
        "under seeded schedules incl. starve-each sweep and select tie-breaks, batch sizes and left-file read chunkings. Oracle: "
        "an independent dictionary join on ids (paired set, paired order, each unpaired record exactly once, --np, "
        "--ignore-empty, field-name order) and equality of all runs; -s must give the same multiset as the default mode. "
        "Non-trivial = scheduler had >=2 candidates; distinct = distinct (case hash, trace hash).")
ASSUMPTIONS = [
    "facet claim: concurrency and batching of join's two readers; exhaustive flag x data coverage is input sampling and outside this technique",
    "unpaired-left emission order is only required to be the same in every run (the property fixes the order of paired records only)",
]
COMPONENTS = c04.COMPONENTS

KEYS = ["k1", "k2", "k3", "k4", "", "K1", "k10"]
# values where one is a prefix of another and the next character sorts below the comma, values containing the comma that
# joins grouping keys elsewhere, numeric look-alikes (equality is textual)
KEYS_RICH = ["C", "C#", "C++", "Mary", "Mary Ann", "a,b", "a", "b,c", "1", "1.0", "01", "k1 ", " k1", "x y", "x"]
KEYS2 = ["x", "y", "", "c", "b,c", "y z", "#"]
KEYS_NUM = ["1", "1.0", "01", "1e0", "16", "16.0", "5", "5.00", "0", "0.0", "1E0", "1.00", "2", "2.0", "20", "2e1"]  # texts the JSON writer (used to read the result) prints verbatim


def side(r, n, idname, other, keys=KEYS, two=False):
    recs = []
    for i in range(n):
        rec = []
        roll = r.random()
        key = r.choice(keys)
        if roll < 0.1:
            pass  # no join field at all
        else:
            rec.append(("JK", key))
        if two and r.random() >= 0.08:
            rec.append(("JK2", r.choice(KEYS2)))
        rec.append((idname, "%s%d" % (idname[0], i + 1)))
        rec.append((other, str(r.randint(0, 99))))
        if r.chance(0.3):
            r.shuffle(rec)
        recs.append(rec)
    return recs


def build_case(r, tier):
    nl = r.choice([0, 1, 2, 5, 12, 30])
    nr = r.choice([0, 1, 2, 5, 12, 30, 80])
    two = r.chance(0.3)
    keys = KEYS if r.chance(0.6) else r.sample(KEYS_RICH, 6) + ["k1", ""]
    numkeys = False
    if r.chance(0.2):
        # join-field values are compared as text: numbers written differently are different keys (plain formats, where
        # values are type-inferred from the data)
        keys = r.sample(KEYS_NUM, 7) + [""]
        numkeys, two = True, False
    left = side(r, nl, "lid", "lv", keys, two)
    right = side(r, nr, "rid", "rv", keys, two)
    if two and r.chance(0.4):
        # different value tuples whose comma-joined texts are equal must not pair
        a, b = r.choice([(("a,b", "c"), ("a", "b,c")), (("x,", "y"), ("x", ",y")), ((",", ""), ("", ","))])
        if r.chance(0.5):
            a, b = b, a
        left.insert(r.randint(0, len(left)), [("JK", a[0]), ("JK2", a[1]), ("lid", "l%d" % (len(left) + 1)), ("lv", "7")])
        right.insert(r.randint(0, len(right)), [("JK", b[0]), ("JK2", b[1]), ("rid", "r%d" % (len(right) + 1)), ("rv", "8")])
    lname, rname, oname = "JK", "JK", "JK"
    l2 = r2 = o2 = "JK2"
    opts = []
    if r.chance(0.4):
        lname, rname, oname = "lk", "rk", r.choice(["ok", "lk", "rk"])
        l2, r2, o2 = "lk2", "rk2", r.choice(["ok2", "lk2"])
        ren_l = {"JK": "lk", "JK2": "lk2"}
        ren_r = {"JK": "rk", "JK2": "rk2"}
        left = [[(ren_l.get(k, k), v) for k, v in rec] for rec in left]
        right = [[(ren_r.get(k, k), v) for k, v in rec] for rec in right]
        if r.chance(0.4):
            # an ordinary field that happens to be named like the other side's join field
            if oname != "rk":
                left = [rec + [("rk", "L%d" % i)] if r.chance(0.6) else rec for i, rec in enumerate(left)]
            if oname != "lk":
                right = [rec + [("lk", "R%d" % i)] if r.chance(0.6) else rec for i, rec in enumerate(right)]
        if two:
            opts += ["-l", lname + "," + l2, "-r", rname + "," + r2, "-j", oname + "," + o2]
        else:
            opts += ["-l", lname, "-r", rname, "-j", oname]
    else:
        opts += ["-j", "JK,JK2" if two else "JK"]
    np_, ul, ur = r.chance(0.3), r.chance(0.6), r.chance(0.6)
    if np_ and not (ul or ur):
        ul = True  # join refuses --np with nothing else to emit
    if np_:
        opts.append("--np")
    if ul:
        opts.append("--ul")
    if ur:
        opts.append("--ur")
    ign = r.chance(0.3)
    if ign:
        opts.append("--ignore-empty")
    lp = rp = None
    if r.chance(0.25):
        lp = "L_"
        opts += ["--lp", lp]
    if r.chance(0.25):
        rp = "R_"
        opts += ["--rp", rp]
    lk = None
    if r.chance(0.3):
        # --lk: keep only these left fields (the join fields are kept anyway); "" makes the left file a row selector
        lk = r.choice([["lid"], ["lid", "lv"], ["lv", "lid"], ["lid", "nosuch"], [], []])
        if lk == [] and ul:
            lk = ["lid"]  # with nothing but join fields an unpaired left record cannot be told from another
        opts += ["--lk", ",".join(lk)]
    sorted_mode = r.chance(0.3)
    if sorted_mode:
        # -s requires both inputs sorted lexically by the join key; records lacking the key are left out of sorted cases
        def sort_keep_keyless(recs, names_):
            has = lambda x: all(any(k == nm for k, _ in x) for nm in names_)
            keyed = sorted([x for x in recs if has(x)], key=lambda rec: tuple(dict(rec)[nm].encode("utf-8") for nm in names_))
            for x in [x for x in recs if not has(x)]:
                keyed.insert(r.randint(0, len(keyed)), x)
            return keyed
        left = sort_keep_keyless(left, [lname, l2] if two else [lname])
        right = sort_keep_keyless(right, [rname, r2] if two else [rname])
    elif r.chance(0.2):
        opts.append("-u")
    rich = (keys is not KEYS and not numkeys) or two
    lfmt = r.choice(["dkvp", "dkvp", "json", "csvlite"]) if not rich else "json"
    rfmt = "json" if rich else "dkvp"

    def jtext(recs):
        return "[\n" + ",\n".join("{" + ", ".join("%s: %s" % (json.dumps(k), json.dumps(v)) for k, v in rec) + "}" for rec in recs) + "\n]\n"
    rtext = jtext if rich else gen.to_dkvp
    if lfmt == "csvlite":
        ltext = gen.to_csv(left)
    elif lfmt == "json":
        ltext = "[\n" + ",\n".join("{" + ", ".join("%s: %s" % (json.dumps(k), json.dumps(v)) for k, v in rec) + "}" for rec in left) + "\n]\n"
    else:
        ltext = gen.to_dkvp(left)
    # right stream possibly in two files
    cut = r.randint(0, len(right)) if r.chance(0.3) else len(right)
    files = {"left.dat": ltext, "right1.dat": rtext(right[:cut])}
    names = ["right1.dat"]
    if cut < len(right) or r.chance(0.1):
        files["right2.dat"] = rtext(right[cut:])
        names.append("right2.dat")
    return {"kind": "join", "left": left, "right": right, "opts": opts, "sorted": sorted_mode, "lfmt": lfmt, "rfmt": rfmt, "files": files, "names": names,
            "lname": lname, "rname": rname, "oname": oname, "two": two, "l2": l2, "r2": r2, "o2": o2, "np": np_, "ul": ul, "ur": ur, "ignore_empty": ign, "lp": lp, "rp": rp, "lk": lk,
            "cseed": r.randint(1, 1 << 40), "nconf": 5 if tier == "quick" else 8, "sweep": tier != "quick" or r.chance(0.4)}


def join_args(case, sorted_mode):
    v = ["join"] + (["-s"] if sorted_mode else []) + case["opts"] + ["-i", case["lfmt"], "-f", "left.dat"]
    return ["mlr"] + (["--ijson"] if case.get("rfmt") == "json" else []) + ["--ojson"] + v + case["names"]


def model(case):
    """Independent dictionary join on ids. Returns (paired list in required order, set of unpaired left ids, list of unpaired right ids)."""
    ln = [case["lname"]] + ([case["l2"]] if case.get("two") else [])
    rn = [case["rname"]] + ([case["r2"]] if case.get("two") else [])

    def key(rec, names_):
        d = dict(rec)
        if any(nm not in d for nm in names_):
            return None
        if case["ignore_empty"] and any(d[nm] == "" for nm in names_):
            return None
        return tuple(d[nm] for nm in names_)
    buckets = {}
    for rec in case["left"]:
        k = key(rec, ln)
        if k is not None:
            buckets.setdefault(k, []).append(dict(rec)["lid"])
    paired = []
    unp_r = []
    paired_l = set()
    for rec in case["right"]:
        k = key(rec, rn)
        rid = dict(rec)["rid"]
        if k is not None and k in buckets:
            for lid in buckets[k]:
                paired.append((lid, rid))
                paired_l.add(lid)
        else:
            unp_r.append(rid)
    unp_l = {dict(rec)["lid"] for rec in case["left"]} - paired_l
    return paired, unp_l, unp_r


def expected_records(case):
    """Complete expected records by id: paired (lid, rid) -> ordered fields; unpaired left lid -> fields; unpaired right rid -> fields."""
    two = case.get("two")
    ln = [case["lname"]] + ([case["l2"]] if two else [])
    rn = [case["rname"]] + ([case["r2"]] if two else [])
    on = [case["oname"]] + ([case["o2"]] if two else [])
    lp, rp = case["lp"] or "", case["rp"] or ""
    lk = case.get("lk")
    L = {dict(rec)["lid"]: ([(k, v) for k, v in rec if k in ln or k in lk] if lk is not None else rec) for rec in case["left"]}
    R = {dict(rec)["rid"]: rec for rec in case["right"]}

    def unpaired(rec, jnames, prefix):
        # join fields are renamed to their output names only when the record has all of them (it is "keyed")
        return [((on[jnames.index(k)] if k in jnames else prefix + k), v) for k, v in rec]
    exp = {"l": {lid: unpaired(rec, ln, lp) for lid, rec in L.items()}, "r": {rid: unpaired(rec, rn, rp) for rid, rec in R.items()}, "p": {}}
    paired, _, _ = model(case)
    for lid, rid in paired:
        l, r = L[lid], R[rid]
        rec = [(o, dict(l)[nm]) for o, nm in zip(on, ln)] + [(lp + k, v) for k, v in l if k not in ln] + [(rp + k, v) for k, v in r if k not in rn]
        exp["p"][(lid, rid)] = rec
        if lk == []:
            exp.setdefault("rs", {})[rid] = rec  # row selector: the paired record carries no left id
    return exp


def content_ok(case, out, exp):
    """Each output record must be exactly the expected composition (names, order, values)."""
    for rec in out:
        items = [(k, v if isinstance(v, str) else json.dumps(v)) for k, v in rec.items()]
        lid = next((v for k, v in items if k.endswith("lid")), None)
        rid = next((v for k, v in items if k.endswith("rid")), None)
        if lid is not None and rid is not None:
            want = exp["p"].get((lid, rid))
        elif lid is not None:
            want = exp["l"].get(lid)
        elif rid in exp.get("rs", {}):
            want = exp["rs"][rid]
        else:
            want = exp["r"].get(rid)
        if want is None:
            continue
        if [(k, str(v)) for k, v in want] != items:
            return {"got": items, "want": want}
    return None


def classify(case, out):
    """Splits output records into paired (lid, rid) in order, unpaired-left ids, unpaired-right ids."""
    paired, ul, ur = [], [], []
    for rec in out:
        lid = rid = None
        for k, v in rec.items():
            if k.endswith("lid"):
                lid = v
            if k.endswith("rid"):
                rid = v
        if lid is not None and rid is not None:
            paired.append((lid, rid))
        elif lid is not None:
            ul.append(lid)
        elif rid is not None:
            ur.append(rid)
        else:
            return None
    return paired, ul, ur


def evaluate(case, chk):
    vd = Verdict()
    pool = chk.pool
    kw = {"files": {k: v.encode() for k, v in case["files"].items()}}
    args = join_args(case, case["sorted"])
    if case.get("configs") is None:
        pilot = pool.run1(mkspec(args, sched={"policy": "rtb", "seed": 1}, **kw))
        vd.runs.append(pilot)
        rng = Rng(case["cseed"], "cfg")
        cfgs = c04.gen_configs(rng, pilot.goroutines, case["nconf"], batches=[1, 1, 2, 3, 5, None])
        for c in cfgs:
            c.pop("flags", None)
        if case.get("sweep"):
            names = [g for g in pilot.goroutines if "join" in g] or pilot.goroutines
            for sc in starve_each(names, rng.randint(1, 1 << 30)):
                cfgs.append({"batch": rng.choice([1, 2, None]), "sched": sc, "rtseed": 1})
        case["configs"] = cfgs
    want_p, want_ul, want_ur = model(case)
    first = None
    for cfg in case["configs"]:
        r = pool.run1(mkspec(c04.perturb_args(args, cfg), sched=cfg["sched"], knobs=cfg.get("knobs"), chunk=cfg.get("chunk"), rtseed=cfg.get("rtseed", 1), **kw))
        vd.runs.append(r)
        cfgs_ = json.loads(json.dumps(cfg))
        if r.status != "exit":
            vd.add("no-termination" if r.status in ("deadlock", "livelock") else r.status, config=cfgs_, blocked=r.blocked[:12], text=r.panic_text[-600:])
            break
        if r.code != 0:
            vd.add("fails", config=cfgs_, stderr=r.stderr[:300].decode("utf-8", "replace"))
            break
        if first is None:
            first = r
        elif r.stdout != first.stdout:
            vd.add("output-depends-on-schedule", config=cfgs_, first_diff=c04.first_diff(first.stdout, r.stdout))
            break
        try:
            out = json.loads(r.stdout.decode(), parse_float=str, parse_int=str) if r.stdout.strip() else []
        except ValueError:
            vd.add("output-not-json", config=cfgs_)
            break
        cl = classify(case, out)
        if cl is None:
            vd.add("record-without-id", config=cfgs_)
            break
        got_p, got_ul, got_ur = cl
        exp_p = [] if case["np"] else want_p
        exp_ur_rowsel = None
        if case.get("lk") == []:
            # row selector: a paired record consists of the join fields and the right record's other fields, once per
            # matching left record - it carries the right id only
            npairs = {}
            for _, rid in want_p:
                npairs[rid] = npairs.get(rid, 0) + 1
            exp_ur_rowsel = []
            for rec in case["right"]:
                rid = dict(rec)["rid"]
                if rid in npairs:
                    exp_ur_rowsel += [rid] * (0 if case["np"] else npairs[rid])
                elif case["ur"]:
                    exp_ur_rowsel.append(rid)
            exp_p = []
        if case["sorted"]:
            ok_p = sorted(got_p) == sorted(exp_p)
        else:
            ok_p = got_p == exp_p
        if not ok_p:
            vd.add("paired-records-wrong", config=cfgs_, sorted_mode=case["sorted"], want_n=len(exp_p), got_n=len(got_p),
                   missing=sorted(set(exp_p) - set(got_p))[:5], extra=sorted(set(got_p) - set(exp_p))[:5],
                   order_only=sorted(got_p) == sorted(exp_p))
            break
        exp_ul = sorted(want_ul) if case["ul"] else []
        exp_ur = want_ur if case["ur"] else []
        if exp_ur_rowsel is not None:
            exp_ur = exp_ur_rowsel
        if sorted(got_ul) != exp_ul:
            vd.add("unpaired-left-wrong", config=cfgs_, want=exp_ul[:8], got=sorted(got_ul)[:8], want_n=len(exp_ul), got_n=len(got_ul))
            break
        if (sorted(got_ur) != sorted(exp_ur)) if case["sorted"] else (got_ur != exp_ur):
            vd.add("unpaired-right-wrong", config=cfgs_, want=exp_ur[:8], got=got_ur[:8], want_n=len(exp_ur), got_n=len(got_ur))
            break
        # field-name order of paired records: join fields under output name, then left rest, then right rest
        if not case["np"] and out and case.get("lk") != [] and not check_field_order(case, out):
            vd.add("paired-field-order-wrong", config=cfgs_)
            break
        bad = content_ok(case, out, expected_records(case))
        if bad:
            vd.add("record-composition-wrong", config=cfgs_, sorted_mode=case["sorted"], **bad)
            break
    return vd


def check_field_order(case, out):
    lp, rp = case["lp"] or "", case["rp"] or ""
    for rec in out:
        keys = list(rec.keys())
        has_l = any(k.endswith("lid") for k in keys)
        has_r = any(k.endswith("rid") for k in keys)
        if not (has_l and has_r):
            continue
        if keys[0] != case["oname"]:
            return False
        rest = keys[1:]
        if case.get("two"):
            if not rest or rest[0] != case["o2"]:
                return False
            rest = rest[1:]
        li = [i for i, k in enumerate(rest) if k in (lp + "lid", lp + "lv", "lid", "lv")]
        ri = [i for i, k in enumerate(rest) if k in (rp + "rid", rp + "rv", "rid", "rv")]
        if li and ri and max(li) > min(ri):
            return False
    return True


def cases(rng, tier):
    i = 0
    while True:
        i += 1
        yield build_case(rng.fork("c13", i), tier)


def sample_of(case, verdict):
    return {"args": join_args(case, case["sorted"]), "left_n": len(case["left"]), "right_n": len(case["right"]), "sorted": case["sorted"],
            "left_head": case["left"][:3], "right_head": case["right"][:3],
            "runs": [{"status": r.status, "code": r.code, "steps": r.steps, "policy": (r.spec.get("sched") or {}).get("policy")} for r in verdict.runs[:6]]}


def known_match(case, klass, detail, known):
    return None


def shrink_candidates(case):
    cfgs = case.get("configs") or []
    if len(cfgs) > 1:
        for i in range(len(cfgs)):
            c = dict(case)
            c["configs"] = [cfgs[i]]
            yield c
