"""Generators: input data, verb catalogue, chains, termination / tail -f / --seed families."""
import json

from simlib import Rng, random_sched

VOCAB_A = ["pan", "eks", "wye", "zee", "hat"]
VOCAB_B = ["pan", "wye", "zee", "eks", "hat", ""]


def gen_records(rng, n, sparse=False, wide=False):
    recs = []
    nwide = rng.randint(8, 14)
    for k in range(n):
        r = [("a", rng.choice(VOCAB_A)), ("b", rng.choice(VOCAB_B)), ("i", str(rng.randint(0, 40))),
             ("x", "%.4f" % rng.random()), ("y", "%.3f" % (rng.random() * 100 - 50))]
        if wide:
            for j in range(nwide):
                r.append(("f%d" % j, str(rng.randint(0, 999))))
        if sparse and rng.chance(0.3):
            r.pop(rng.below(len(r)))
        if sparse and rng.chance(0.15):
            r.append(("z", rng.choice(["0x1f", "1e3", "-0", "abc", "007", ""])))
        recs.append(r)
    return recs


def to_dkvp(recs):
    return "".join(",".join("%s=%s" % (k, v) for k, v in r) + "\n" for r in recs)


def to_json(recs):
    def val(v):
        try:
            float(v)
            if v[:1] not in "0+" or v in ("0",) or v.startswith("0."):
                return v
        except ValueError:
            pass
        return json.dumps(v)
    out = []
    for r in recs:
        out.append("{" + ", ".join("%s: %s" % (json.dumps(k), val(v)) for k, v in r) + "}")
    return "[\n" + ",\n".join(out) + "\n]\n"


def to_csv(recs):
    """csvlite-style: a new header block whenever keys change (valid for csvlite; for csv only if rectangular)."""
    out = []
    prev = None
    for r in recs:
        keys = [k for k, _ in r]
        if keys != prev:
            if prev is not None:
                out.append("")
            out.append(",".join(keys))
            prev = keys
        out.append(",".join(v for _, v in r))
    return "\n".join(out) + "\n" if out else ""


def gen_input(rng, n=None, fmt=None):
    """Returns (flags, text, fmt). Input text in a random format."""
    if n is None:
        n = rng.choice([0, 1, 2, 3, 5, 7, 12, 30, 80])
    fmt = fmt or rng.choice(["dkvp", "dkvp", "json", "csv", "csvlite"])
    sparse = fmt in ("dkvp", "json", "csvlite") and rng.chance(0.4)
    recs = gen_records(rng, n, sparse=sparse, wide=rng.chance(0.25))
    if fmt == "dkvp":
        return [], to_dkvp(recs), fmt
    if fmt == "json":
        return ["--ijson"], to_json(recs), fmt
    if fmt == "csv":
        return ["--icsv"], to_csv(recs), fmt
    return ["--icsvlite"], to_csv(recs), fmt


OFLAGS = [[], [], ["--ojson"], ["--ocsv", "--allow-ragged-csv-input"], ["--oxtab"], ["--opprint"], ["--ojsonl"], ["--otsv"], ["--onidx"],
          ["--ocsvlite"], ["--omd"], ["--opprint", "--barred"], ["--oxtab", "--opprint"]]

# ---------------------------------------------------------------- verb catalogue
# tags: S = streaming 1:1 or filter (record-only), N = non-streaming (emits at end), E = early exit (unkeyed head),
#       R = draws from the shared RNG, P = prints/emits non-record text or end-of-stream records (not allowed upstream of E),
#       X = file side effects


def _fields(rng, k=None):
    fs = ["a", "b", "i", "x", "y"]
    return ",".join(rng.sample(fs, k or rng.randint(1, 3)))


CATALOG = [
    ("S", lambda r: ["cat"]),
    ("S", lambda r: ["cat", "-n"]),
    ("S", lambda r: ["cat", "-n", "-g", r.choice(["a", "b", "a,b"])]),
    ("S", lambda r: ["cat", "-N", "idx"]),
    ("S", lambda r: ["put", r.choice(["$z = $x . \"_\" . $i", "$s = $i + 1", "$nr = NR", "$nf = NF", "$k = strlen($a) + $i",
                                      "unset $b", "$* = mapdiff($*, {\"y\": 0})", "$new = FNR . \":\" . FILENAME",
                                      "if ($i > 20) {$big = 1} else {$small = 1}", "$y = fmtnum($y, \"%.1f\")",
                                      "$m = $x > 0.5 ? \"hi\" : \"lo\"", "$acc = is_present(@s) ? @s : 0; @s = $acc + $i"])]),
    ("S", lambda r: ["filter", r.choice(["$x > 0.5", "$i % 2 == 0", "$a == \"pan\"", "NR % 3 != 0", "is_present($b) && $b != \"\"", "true", "false"])]),
    ("S", lambda r: ["filter", "-x", r.choice(["$x > 0.3", "$a =~ \"^[pw]\""])]),
    ("S", lambda r: ["rename", r.choice(["a,aa", "x,xx,y,yy", "-r", ]) if False else "a,aa"]),
    ("S", lambda r: ["rename", "-r", "^(.)$,f_\\1"]),
    ("S", lambda r: ["reorder", "-f", _fields(r)]),
    ("S", lambda r: ["reorder", "-e", "-f", _fields(r)]),
    ("S", lambda r: ["cut", "-f", _fields(r)]),
    ("S", lambda r: ["cut", "-o", "-f", _fields(r)]),
    ("S", lambda r: ["cut", "-x", "-f", _fields(r)]),
    ("S", lambda r: ["having-fields", "--at-least", _fields(r, 1)]),
    ("S", lambda r: ["label", r.choice(["p,q", "p,q,r", "u"])]),
    ("S", lambda r: ["regularize"]),
    ("S", lambda r: ["sort-within-records"]),
    ("S", lambda r: ["sort-within-records", "-r", "^[abx]"]),
    ("S", lambda r: ["fill-empty"]),
    ("S", lambda r: ["fill-empty", "-v", "X"]),
    ("S", lambda r: ["fill-down", "-f", _fields(r, 1)]),
    ("S", lambda r: ["fill-down", "-a", "-f", "b"]),
    ("S", lambda r: ["unsparsify", "-f", "a,b,z"]),
    ("S", lambda r: ["sec2gmt", "i"]),
    ("S", lambda r: ["sec2gmtdate", "i"]),
    ("S", lambda r: ["grep", r.choice(["pan", "a=e", "-i", ]) if False else r.choice(["pan", "eks", "=4"])]),
    ("S", lambda r: ["grep", "-v", "wye"]),
    ("S", lambda r: ["sub", "-f", "a,b", "e", "E"]),
    ("S", lambda r: ["gsub", "-f", "a,b", "[aeiou]", "_"]),
    ("S", lambda r: ["format-values"]),
    ("S", lambda r: ["format-values", "-n", "-f", "%.2f"]),
    ("S", lambda r: ["step", "-a", r.choice(["delta", "shift", "counter", "rsum", "shift_lag,ratio", "ewma"]) if False else r.choice(["delta", "shift", "counter", "rsum"]), "-f", r.choice(["i", "x", "i,x"])]),
    ("S", lambda r: ["step", "-a", "ewma", "-d", "0.1,0.9", "-f", "x"]),
    ("S", lambda r: ["step", "-a", "shift_lag,counter", "-f", "i", "-g", "a"]),
    ("S", lambda r: ["merge-fields", "-a", "min,max,sum", "-f", "x,y", "-o", "xy"]),
    ("S", lambda r: ["merge-fields", "-k", "-a", "count", "-c", "x,y", "-o", "cnt"]),
    ("S", lambda r: ["nest", "--ivar", ";", "-f", "a"]),
    ("S", lambda r: ["nest", "--explode", "--values", "--across-records", "-f", "y", "--nested-fs", "."]),
    ("S", lambda r: ["nest", "--explode", "--values", "--across-fields", "-f", "x", "--nested-fs", "."]),
    ("S", lambda r: ["decimate", "-n", str(r.randint(1, 4))]),
    ("S", lambda r: ["decimate", "-n", "2", "-b", "-g", "a"]),
    ("S", lambda r: ["head", "-n", str(r.randint(1, 3)), "-g", r.choice(["a", "a,b"])]),
    ("S", lambda r: ["altkv"]),
    ("S", lambda r: ["json-stringify", "-f", "a"]),
    ("S", lambda r: ["template", "-f", "y,x,i,a,q"]),
    ("S", lambda r: ["sparsify"]),
    ("S", lambda r: ["case", "-u", "-k", "-f", "a,b"]),
    ("S", lambda r: ["skip-trivial-records"]),
    ("S", lambda r: ["seqgen", "--start", "1", "--stop", str(r.choice([0, 1, 5, 499, 500, 501, 1200])), "-f", "i"]),
    # second catalogue batch: more verbs with state that crosses batch boundaries or look-ahead
    ("S", lambda r: ["repeat", "-n", str(r.randint(1, 3))]),
    ("S", lambda r: ["step", "-a", "shift_lead,ratio,rsum", "-f", "i"]),
    ("S", lambda r: ["step", "-a", r.choice(["slwin_2_2", "slwin_0_3,from-first", "slwin_1_0"]), "-f", r.choice(["x", "i"])]),
    ("S", lambda r: ["step", "-a", "shift_lag_2,delta_2,shift_lead_2", "-f", "i", "-g", "a"]),
    ("S", lambda r: ["stats1", "-s", "-a", "sum,count", "-f", "i"]),
    ("S", lambda r: ["stats1", "-w", str(r.randint(1, 4)), "-a", "mean,max", "-f", "i", "-g", "a"]),
    ("S", lambda r: ["gap", "-n", str(r.randint(1, 3))]),
    ("S", lambda r: ["gap", "-g", r.choice(["a", "a,b"])]),
    ("S", lambda r: ["flatten"]),
    ("S", lambda r: ["unflatten"]),
    ("S", lambda r: ["json-parse", "-f", "i"]),
    ("S", lambda r: ["clean-whitespace"]),
    ("S", lambda r: ["unspace"]),
    ("S", lambda r: ["ssub", "-f", "a,b", "e", "E"]),
    ("S", lambda r: ["utf8-to-latin1"]),
    ("S", lambda r: ["having-fields", "--any-matching", "^[bz]$"]),
    ("S", lambda r: ["having-fields", "--at-most", "a,b,i,x,y"]),
    ("S", lambda r: ["sparsify", "-s", "X"]),
    ("S", lambda r: ["template", "--fill-with", "N", "-f", "a,q,i"]),
    ("S", lambda r: ["nest", "--evar", ";", "-f", "b"]),
    ("S", lambda r: ["cut", "-r", "-f", "^[abx]"]),
    ("S", lambda r: ["rename", "-g", "-r", "a,A"]),
    ("S", lambda r: ["fill-down", "--all"]),
    ("S", lambda r: ["fill-empty", "-S"]),
    ("S", lambda r: ["grep", "-a", "pan"]),
    ("S", lambda r: ["case", "-s", "-v", "-f", "a,b"]),
    ("S", lambda r: ["bar", "-f", "x", "--lo", "0", "--hi", "1"]),
    ("S", lambda r: ["sec2gmt", "--millis", "i"]),
    ("S", lambda r: ["rank", "--sorted", "-f", "a"]),
    ("S", lambda r: ["top", "-n", "1", "-f", "x", "-g", "a", "-a"] if False else ["count-similar", "-g", "b"]),
    ("S", lambda r: ["put", r.choice(["@prev = is_present(@cur) ? @cur : \"none\"; @cur = $a; $prev = @prev",
                                      "@count[$a] = is_present(@count[$a]) ? @count[$a] + 1 : 1; $n = @count[$a]",
                                      "begin { @first = \"\" } if (@first == \"\") { @first = $a } $first = @first",
                                      "$idx = NR % 3; if (NR > 2) { unset $x }",
                                      "map m = {}; m[NR] = $i; $s = joinv(m, \",\")"])]),
    # user-defined functions of the same name in different stages are different functions (also as arguments of higher-order functions)
    ("S", lambda r: ["put", r.choice(["func f(a) { return a * 10 } $y1 = apply([$i], f)[1]", "func f(a) { return a + 1 } $y2 = apply([$i], f)[1]",
                                      "func f(a) { return a . \"!\" } $y3 = apply([$a], f)[1]", "func f(k, v) { return {toupper(k): v} } $y4 = joink(apply({\"q\": $i}, f), \",\")",
                                      "func f(a, b) { return b <=> a } $y5 = joinv(sort([$i, 3, 40], f), \";\")", "func f(a, b) { return a <=> b } $y6 = joinv(sort([$i, 3, 40], f), \";\")",
                                      "func f(acc, e) { return acc + e } $y7 = fold([$i, 1, 2], f, 0)", "func f(acc, e) { return acc . e } $y8 = fold([$i, 1, 2], f, \"\")",
                                      "func g(a) { return a * 2 } func f(a) { return g(a) + 1 } $y9 = f($i)", "func g(a) { return a * 3 } func f(a) { return g(a) - 1 } $y0 = f($i)"])]),
    # key-index maintenance (records with >= 12 fields are hash-indexed lazily): rename / unlink / re-add paths
    ("S", lambda r: ["put", r.choice(["$[[1]] = \"new\"; $z = is_present($a) ? \"old-name-still-there\" : \"gone\"",
                                      "$[[2]] = \"a\"; $n = NF", "$[[[1]]] = \"v\"; $z = $a", "$[[3]] = $[[4]]; $nf = NF",
                                      "unset $a; $a = \"back\"; $q = $a . $i", "$* = mapexcept($*, \"b\"); $b = is_present($b) ? 1 : 0",
                                      "map m = $*; unset m[\"a\"]; $* = m; $q = is_present($a)", "$[[1]] = \"i\"; $s = $i . \":\" . NF",
                                      "$new = $a; unset $a; $[[1]] = \"a\"; $t = $a"])]),
    ("S", lambda r: ["rename", r.choice(["i,a", "a,b,b,a", "x,y", "a,i,i,x"])]),
    ("S", lambda r: ["reorder", "-e", "-f", "a"] if r.chance(0.5) else ["reorder", "-f", "y,x"]),
    ("N", lambda r: ["summary"]),
    ("N", lambda r: ["summary", "-a", "mean,minlen,null_count,median", "--transpose"]),
    ("N", lambda r: ["rank", "-f", r.choice(["x", "i"])]),
    ("N", lambda r: ["rank", "-f", "i", "-g", "a"]),
    ("N", lambda r: ["describe"]),
    ("N", lambda r: ["remove-empty-columns"]),
    ("N", lambda r: ["sparkline", "-f", "x,i"]),
    ("N", lambda r: ["bar", "--auto", "-f", "x"]),
    ("N", lambda r: ["histogram", "-f", "x", "--auto", "--nbins", "3"]),
    ("N", lambda r: ["merge-fields", "-c", "x,y", "-a", "sum,count"]),
    ("N", lambda r: ["top", "-n", "2", "-f", "i", "--min", "-g", "b"]),
    ("N", lambda r: ["stats1", "-a", "null_count,count,antimode,minlen", "--fr", "^[ix]$", "-g", "a"]),
    ("N", lambda r: ["count-distinct", "-f", "a,b", "-u"]),
    ("N", lambda r: ["nest", "--implode", "--values", "--across-records", "-f", "i", "--nested-fs", ";"]),
    ("N", lambda r: ["put", "-q", r.choice(["@recs[NR] = $*; end { for (k, v in @recs) { emit v } }",
                                            "@sum += $i; @cnt += 1; end { emit (@sum, @cnt) }",
                                            "@by[$a][$b] = $i; end { emit @by, \"a\", \"b\" }",
                                            "@last[$a] = $*; end { emit @last, \"a\" }"])]),
    ("N", lambda r: ["sort", r.choice(["-f", "-r", "-c"]), r.choice(["a", "b", "a,b"])]),
    ("N", lambda r: ["sort", r.choice(["-nf", "-nr"]), r.choice(["i", "x", "y"])]),
    ("N", lambda r: ["sort", "-f", "a", "-nr", "x"]),
    ("N", lambda r: ["sort", "-t", "b", "-nf", "i"]),
    ("N", lambda r: ["tac"]),
    ("N", lambda r: ["group-by", r.choice(["a", "b", "a,b"])]),
    ("N", lambda r: ["group-like"]),
    ("N", lambda r: ["count"]),
    ("N", lambda r: ["count", "-g", "a"]),
    ("N", lambda r: ["count", "-d", "-g", "a"]),
    ("N", lambda r: ["count-distinct", "-f", r.choice(["a", "a,b", "b"])]),
    ("N", lambda r: ["count-distinct", "-u", "-f", "a,b"]),
    ("N", lambda r: ["count-similar", "-g", "a"]),
    ("N", lambda r: ["stats1", "-a", r.choice(["mean,sum,count", "min,max,mode", "p10,p50,p90", "var,meaneb", "mad,kurtosis,distinct_count", "median,skewness,maxlen"]), "-f", r.choice(["x", "i", "x,y"])]),
    ("N", lambda r: ["stats1", "-a", "sum,count,p50", "-f", "x,i", "-g", r.choice(["a", "a,b"])]),
    ("N", lambda r: ["stats1", "-i", "-a", "p25,p75", "-f", "y", "-g", "b"]),
    ("N", lambda r: ["stats2", "-a", "linreg-ols,r2,cov", "-f", "x,y"]),
    ("N", lambda r: ["top", "-n", str(r.randint(1, 3)), "-f", "x"]),
    ("N", lambda r: ["top", "-n", "2", "-f", "x,y", "-g", "a", "-a"]),
    ("N", lambda r: ["uniq", "-g", "a"]),
    ("N", lambda r: ["uniq", "-g", "a,b", "-c"]),
    ("N", lambda r: ["uniq", "-g", "a", "-n"]),
    ("N", lambda r: ["uniq", "-a"]),
    ("N", lambda r: ["uniq", "-a", "-c"]),
    ("N", lambda r: ["uniq", "-d", "-g", "a"]),
    ("N", lambda r: ["unsparsify"]),
    ("N", lambda r: ["unsparsify", "--fill-with", "X"]),
    ("N", lambda r: ["fraction", "-f", "x"]),
    ("N", lambda r: ["fraction", "-f", "i", "-g", "a", "-c"]),
    ("N", lambda r: ["histogram", "-f", "x,y", "--lo", "-50", "--hi", "50", "--nbins", "4"]),
    ("N", lambda r: ["most-frequent", "-f", "a"]),
    ("N", lambda r: ["least-frequent", "-f", "a,b", "-b"]),
    ("N", lambda r: ["tail", "-n", str(r.randint(1, 3))]),
    ("N", lambda r: ["tail", "-n", "1", "-g", "a"]),
    ("N", lambda r: ["nest", "--implode", "--values", "--across-records", "-f", "x", "--nested-fs", ";"]),
    ("N", lambda r: ["reshape", "-l2w"] if False else ["reshape", "-i", "x,y", "-o", "key,value"]),
    ("N", lambda r: ["reshape", "-s", "a,i"]),
    ("N", lambda r: ["count-similar", "-g", "a,b", "-o", "n"]),
    ("N", lambda r: ["sec2gmt", "-3", "i"]),
    ("N", lambda r: ["fill-down", "-f", "b", "--only-if-blank"]),
    ("N", lambda r: ["summary", "-a", "field_type,count,min,max"] if False else ["count-distinct", "-n", "-f", "a"]),
    ("E", lambda r: ["head", "-n", str(r.choice([0, 1, 1, 2, 3, 5, 10]))]),
    ("E", lambda r: ["head"]),
    ("S", lambda r: ["nothing"]),  # passes nothing on but reads everything: not an early exit
    ("P", lambda r: ["put", "-q", r.choice(["@sum[$a] += $x; end{emit @sum, \"a\"}", "@c[$a][$b] = NR; end{emitp @c, \"a\"}",
                                            "@n = NR; end{emit @n}", "emit mapsum($*, {\"nr\": NR})", "tee > \"out_\".$a.\".dat\", $*" if False else "emit1 {\"a\": $a}",
                                            "@r[NR] = $*; end{emit @r, \"NR\"}", "@x_max = max(@x_max, $x); @x_min = min(@x_min, $x); end{emitf @x_max, @x_min}",
                                            "@s[$a] = $i; @t[$a] = $x; end{emit (@s, @t), \"a\"}"])]),
    ("P", lambda r: ["put", r.choice(["print \"nr=\".NR", "begin{print \"begin\"} end{print \"end\"}", "printn $a; print \"\"", "NR % 2 == 0 {print \"even \" . NR}",
                                      "end{print \"count=\" . NR}", "emit {\"extra\": NR}", "$k = NR; NR == 2 {emit {\"two\": $a}}", "end{dump}", "@last = $*; end{emit @last}"])]),
    ("P", lambda r: ["put", "-S", "func f(str s): str { return s . \"!\" } $a = f($a); end { print \"done\" }"]),
    # redirects to the process's own stdout / stderr
    ("P", lambda r: ["put", "-q", r.choice(["tee > stdout, $*", "emit > stdout, $*", "print > stdout, $a", "tee > stdout, $*; print \"p\" . NR", "print > stderr, $a; emit $*",
                                            "dump > stdout, {\"a\": $a}; emit $*", "emit > stdout, mapsum($*, {\"nr\": NR}); print \"after\""])]),
    # emitted values must be snapshots: the variable keeps changing while emitted records are still in flight
    ("P", lambda r: ["put", "-q", r.choice(["@c[\"v\"] = $i; emit1 @c", "@c[$a] = NR; emit1 @c", "@c[\"v\"] = $i; emit @c", "@c[$a][$b] = $i; emitp @c, \"a\"",
                                            "@last = $*; emit @last", "@m = {\"i\": $i}; emit1 @m; @m[\"i\"] = -1", "map m = {\"a\": $a}; emit1 m; m[\"a\"] = \"changed\"",
                                            "@acc[NR % 3] = $x; emit (@acc, @acc), \"k\"" if False else "@acc[NR % 3] = $x; emit @acc, \"k\"", "@c[1] = $i; emitf @c",
                                            "@s = $a; @t = $i; emitf @s, @t", "@r = $*; tee > \"t_emit.out\", @r" if False else "@r = $*; emit1 mapsum(@r, {\"nr\": NR})"])]),
    ("P", lambda r: ["nothing"]),
    ("R", lambda r: ["shuffle"]),
    ("R", lambda r: ["bootstrap"]),
    ("R", lambda r: ["sample", "-k", str(r.randint(1, 3)), "-g", "a"]),
    ("R", lambda r: ["put", r.choice(["$r = urandint(1, 1000)", "$r = urand32()", "$r = urandrange(0, 10)", "$e = urandelement([1,2,3,4,5])"])]),
    # every random function over ordinary, degenerate and very wide ranges: all of them must follow --seed
    ("R", lambda r: ["put", r.choice(["$r = urandint(0, 2**60)", "$r = urandint(-2**62, 2**62)", "$r = urandint(-5, 5)", "$r = urandint(10, 1)", "$r = urandint(0, 9223372036854775807)",
                                      "$r = urandint(-9223372036854775807, 9223372036854775807)", "$r = urandint(0, 2**53 + 1)", "$r = urandint(7, 7)",
                                      "$r = urandrange(-1e300, 1e300)", "$r = urandrange(5, 5)", "$r = urandrange(-1, 1) * 1000000", "$r = urand() * 1000000",
                                      "$r = urand32() . \":\" . urand()", "$e = urandelement([$a, $b, \"z\"])", "$r = urandint($i, $i + 2**55)", "$r = fmtnum(urand(), \"%.12f\")",
                                      "$r = int(urand() * 2**62)", "$r = urandint(1, 6) + urandint(1, 6)"])]),
    ("R", lambda r: ["bootstrap", "-n", str(r.choice([1, 3, 20]))]),
    ("R", lambda r: ["sample", "-k", str(r.randint(1, 4))]),
    ("R", lambda r: ["shuffle"]),
    ("R", lambda r: ["filter", "urand() < 0.5"]),
]

BY_TAG = {}
for _t, _f in CATALOG:
    BY_TAG.setdefault(_t, []).append(_f)


def gen_chain(rng, maxlen=4, allow=("S", "N", "E", "P"), weights=None):
    """Returns (list of verb arg lists, tags). Obeys R1: nothing tagged P upstream of an E verb."""
    n = rng.randint(1, maxlen)
    verbs, tags = [], []
    for k in range(n):
        t = rng.choice([t for t in (weights or ["S", "S", "S", "N", "N", "E", "P"]) if t in allow])
        verbs.append(rng.choice(BY_TAG[t])(rng))
        tags.append(t)
    # R1(b): an unkeyed early-exit verb makes the amount of input consumed schedule-dependent; what upstream
    # stages print/emit at end of stream is then not a function of the input alone.  seqgen ignores its input.
    last_e = max([i for i, t in enumerate(tags) if t == "E"], default=-1)
    for i in range(last_e):
        if tags[i] == "P":
            verbs[i] = rng.choice(BY_TAG["S"])(rng)
            tags[i] = "S"
    # seqgen anywhere but first discards upstream records, which is fine; but upstream P stages then also
    # see a schedule-dependent amount?  No: seqgen consumes nothing and signals nothing; keep.
    return verbs, tags


def chain_args(verbs):
    out = []
    for i, v in enumerate(verbs):
        if i:
            out.append("then")
        out += v
    return out


def chain_cases(rng, tier):
    i = 0
    while True:
        i += 1
        r = rng.fork("c", i)
        verbs, tags = gen_chain(r)
        nfiles = r.choice([1, 1, 1, 2, 3, 0])
        iflags, text, fmt = gen_input(r)
        files = {}
        names = []
        stdin = None
        if nfiles == 0:
            stdin = text
        else:
            for k in range(nfiles):
                if k > 0:
                    _, text, _ = gen_input(r, fmt=fmt)
                nm = "in%d.%s" % (k, "txt")
                files[nm] = text
                names.append(nm)
        oflags = r.choice(OFLAGS)
        if "--ocsv" in oflags and fmt == "csv":
            oflags = ["--ocsv"]
        if fmt in ("dkvp", "csv", "csvlite") and r.chance(0.15):
            # comment lines, also in runs as long as a (small) batch: a batch may consist of comments only
            cflag = "--skip-comments" if ("E" in tags or r.chance(0.5)) else "--pass-comments"
            iflags = iflags + [cflag]

            def with_comments(text):
                lines = text.split("\n")
                body = lines[:-1] if lines and lines[-1] == "" else lines
                out = []
                for j, ln in enumerate(body):
                    if (j > 0 or fmt == "dkvp") and ln != "" and r.chance(0.3):
                        out += ["# comment %d.%d" % (j, k) for k in range(r.choice([1, 1, 2, 3, 5]))]
                    out.append(ln)
                if r.chance(0.3):
                    out.append("# trailing comment")
                return "\n".join(out) + "\n" if out else text
            if stdin is not None:
                stdin = with_comments(stdin)
            files = {k: with_comments(v) for k, v in files.items()}
        args = ["mlr"] + iflags + oflags + chain_args(verbs) + names
        yield {"kind": "chain", "args": args, "files": files, "stdin": stdin, "tags": tags, "cseed": r.randint(1, 1 << 40),
               "nconf": 5 if tier == "quick" else 8, "sweep": tier != "quick" and r.chance(0.3)}


def termination_cases(rng, tier):
    """Chains with verbs that stop consuming early; starve-each sweep always on."""
    shapes = [
        lambda r: [["head", "-n", str(r.choice([0, 1, 2, 4]))]],
        lambda r: [["head", "-n", "2"], ["head", "-n", "1"]],
        lambda r: [["head", "-n", "1"], ["head", "-n", "3"]],
        lambda r: [["tee", "tee_out.txt"], ["head", "-n", str(r.choice([1, 2]))]],
        lambda r: [["tee", "-a", "tee_out.txt"], ["put", "$z=1"], ["head", "-n", "1"]],
        lambda r: [["seqgen", "--start", "1", "--stop", str(r.choice([10, 600, 1100, 5000]))], ["head", "-n", str(r.choice([1, 3, 501]))]],
        lambda r: [["seqgen", "--start", "1", "--stop", "100000000"], ["head", "-n", str(r.choice([1, 4, 700]))]],
        lambda r: [["seqgen", "--start", "1", "--stop", "2000"], ["put", "$j = $i * 2"], ["head", "-n", "2"], ["put", "$k = 1"]],
        lambda r: [["sort", "-nr", "x"], ["head", "-n", "2"]],
        lambda r: [["tac"], ["head", "-n", "1"], ["cat", "-n"]],
        lambda r: [["cat", "-n"], ["head", "-n", "2"], ["tac"]],
        lambda r: [["head", "-n", "1", "-g", "a"], ["head", "-n", "2"]],
        lambda r: [["nothing"]],
        lambda r: [["cat"], ["nothing"], ["cat"]],
        # verbs that let nothing through still consume the whole stream: everything upstream happens for every record
        lambda r: [["put", "print \"nr=\".NR"], ["nothing"]],
        lambda r: [["put", "-q", "print NR; emit $*"], ["nothing"], ["cat"]],
        lambda r: [["tee", "tee_out.txt"], ["nothing"]],
        lambda r: [["put", "-q", "tee > \"t_all.txt\", $*"], ["nothing"]],
        lambda r: [["put", "print \"nr=\".NR"], [r.choice(["count", "tac", "group-like", "tail"])]] if False else [["put", "print \"nr=\".NR"], ["filter", "false"]],
        lambda r: [["put", "end { print \"n=\" . NR }"], ["nothing"]],
        lambda r: [["put", "-q", "tee > \"t_\".$a.\".txt\", $*"], ["head", "-n", "1"]] if False else [["fill-down", "-f", "b"], ["head", "-n", "3"], ["sec2gmt", "i"]],
        lambda r: [["head", "-n", "2"], ["put", "-q", "@c = NR; end{emit @c}"]],
        lambda r: [["head", "-n", "1"], ["tee", "tee_out.txt"], ["head", "-n", "1"]],
        lambda r: [["split-lines"] if False else ["count-similar", "-g", "a"], ["head", "-n", "2"]],
        lambda r: [["join", "-j", "a", "-f", "left.txt"], ["head", "-n", "2"]],
        lambda r: [["join", "--ul", "--ur", "-j", "a", "-f", "left.txt"], ["head", "-n", "1"], ["cat"]],
    ]
    i = 0
    while True:
        i += 1
        r = rng.fork("t", i)
        verbs = r.choice(shapes)(r)
        n = r.choice([0, 1, 2, 3, 10, 60, 600, 1300])
        iflags, text, fmt = gen_input(r, n=n, fmt=r.choice(["dkvp", "csv", "json"]))
        files = {"in0.txt": text}
        names = ["in0.txt"]
        if r.chance(0.3):
            _, t2, _ = gen_input(r, n=r.choice([0, 3, 700]), fmt=fmt)
            files["in1.txt"] = t2
            names.append("in1.txt")
        if any(v[0] == "join" for v in verbs):
            iflags, text, fmt = [], to_dkvp(gen_records(r, n)), "dkvp"
            files = {"in0.txt": text, "left.txt": to_dkvp(gen_records(r, r.choice([0, 2, 40, 700])))}
            names = ["in0.txt"]
        stdin = None
        if verbs[0][0] == "seqgen":
            files, names = {}, []
            iflags = []
        elif r.chance(0.25) and len(names) == 1 and "left.txt" not in files:
            stdin = files.pop("in0.txt")
            names = []
        args = ["mlr"] + iflags + r.choice([[], ["--ojson"], ["--ocsv"]]) + chain_args(verbs) + names
        # tee/seqgen/join are fine for the staged model except unbounded seqgen (then self-consistency + termination)
        yield {"kind": "termination", "args": args, "files": files, "stdin": stdin, "cseed": r.randint(1, 1 << 40),
               "nconf": 4 if tier == "quick" else 6, "sweep": True, "batches": [1, 2, 3, 7, 500, None],
               "no_ref": any("100000000" in v for v in verbs)}


# ---------------------------------------------------------------- --hash-records / --no-hash-records

KEY_VERBS = [
    lambda r: ["put", r.choice(["$[[1]] = \"new\"; $z = is_present($a) ? \"old-name-still-there\" : \"gone\"",
                                "$[[2]] = \"a\"; $n = NF", "$[[[1]]] = \"v\"; $z = $a", "$[[3]] = $[[4]]; $nf = NF",
                                "unset $a; $a = \"back\"; $q = $a . $i", "$* = mapexcept($*, \"b\"); $b = is_present($b) ? 1 : 0",
                                "map m = $*; unset m[\"a\"]; $* = m; $q = is_present($a)", "$[[1]] = \"i\"; $s = $i . \":\" . NF",
                                "$new = $a; unset $a; $[[1]] = \"a\"; $t = $a", "$f3 = $f1 . $f2; unset $f1; $g = is_present($f1)",
                                "for (k, v in $*) { if (k =~ \"^f[0-3]$\") { unset $[k] } } $left = NF",
                                "$*  = mapsum({\"first\": NR}, $*); $[[2]] = \"second\"; $u = $second",
                                "$f0 = $f0 + 1; $f5 = $f0 * 2; $[[6]] = \"six\"; $v = is_present($six)"])],
    lambda r: ["rename", r.choice(["i,a", "a,b,b,a", "x,y", "a,i,i,x", "f0,f1", "f1,zz,zz,f2"])],
    lambda r: ["rename", "-r", r.choice(["^f(.)$,g_\\1", "^(.)$,\\1\\1", "^f[0-4]$,same"])],
    lambda r: ["rename", "-g", "-r", "f,F"],
    lambda r: ["reorder", "-f", r.choice(["y,x", "f3,a", "f9,f0"])],
    lambda r: ["reorder", "-e", "-f", r.choice(["a", "f1,f0", "i,b"])],
    lambda r: ["cut", r.choice(["-f", "-o -f", "-x -f"]).split(" ")[-1] if False else "-f", r.choice(["a,f1,f7", "f0,f1,f2,f3,f4,f5,f6,f7,a,b,i,x", "y,f2"])],
    lambda r: ["cut", "-x", "-f", r.choice(["a", "f0,f1", "b,i,x,y"])],
    lambda r: ["cut", "-o", "-f", "f3,a,f1"],
    lambda r: ["cut", "-r", "-f", "^f[0-5]$"],
    lambda r: ["template", "-f", "f2,a,zz,f0"],
    lambda r: ["label", r.choice(["p,q", "f1,f0", "a,b,c,d,e,f,g,h,i,j,k,l,m"])],
    lambda r: ["sort-within-records"],
    lambda r: ["nest", "--ivar", ";", "-f", "a"],
    lambda r: ["fill-empty"],
    lambda r: ["sec2gmt", "f0,i"],
    lambda r: ["unsparsify", "-f", "zz,f0,f30"],
    lambda r: ["regularize"],
    lambda r: ["merge-fields", "-a", "sum", "-f", "f0,f1,f2", "-o", "s"],
    lambda r: ["merge-fields", "-k", "-a", "max", "-c", "f1,f2", "-o", "m"],
    lambda r: ["step", "-a", "delta", "-f", "f0,f8"],
    lambda r: ["having-fields", "--at-least", "f0,f7"],
    lambda r: ["sub", "-f", "a,f1", "1", "one"],
    lambda r: ["count-similar", "-g", "a,f0"],
    lambda r: ["stats1", "-a", "sum", "-f", "f0,f7,i", "-g", "a"],
    lambda r: ["sort", "-nr", "f3", "-f", "a"],
    lambda r: ["top", "-n", "2", "-f", "f5", "-g", "a", "-a"],
    lambda r: ["json-stringify", "-f", "f2"],
    lambda r: ["altkv"],
    lambda r: ["sparsify"],
    lambda r: ["put", "-q", "@r[$a][$f0] = $*; end { emit @r, \"a\", \"f0\" }"],
    # verbs that insert fields in the middle of a record, each followed by a lookup of what they inserted
    lambda r: [["nest", "--explode", "--values", "--across-fields", "-f", "x", "--nested-fs", "."], ["put", "$y = $x_1 . \":\" . $x_2; $q = is_present($x)"]],
    lambda r: [["nest", "--explode", "--pairs", "--across-fields", "-f", "a", "--nested-fs", ";", "--nested-ps", "a"], ["put", "$y = is_present($a) . is_present($p) . NF"]],
    lambda r: [["nest", "--explode", "--pairs", "--across-records", "-f", "a", "--nested-fs", ";", "--nested-ps", "a"], ["put", "$y = is_present($a) ? $a : \"none\"; $n = NF"]],
    lambda r: [["nest", "--explode", "--values", "--across-records", "-f", "x", "--nested-fs", "."], ["put", "$y = $x . \"!\""], ["cut", "-o", "-f", "y,x,a"]],
    lambda r: [["reorder", "-e", "-f", "a"], ["put", "$y = $a . NF"]],
    lambda r: [["sec2gmt", "-1", "i"], ["put", "$y = $i"]],
    lambda r: [["fill-down", "-a", "-f", "b"], ["put", "$y = $b"]],
    lambda r: [["merge-fields", "-a", "sum", "-f", "f0,f1", "-o", "s"], ["put", "$y = $s_sum; $z = is_present($f0)"]],
    lambda r: [["split-join"] if False else ["template", "-f", "zz,a,f0", "--fill-with", "T"], ["put", "$y = $zz . $a"]],
    lambda r: [["unsparsify", "-f", "q1,q2"], ["put", "$y = $q1 . $q2; unset $q1; $w = is_present($q1)"]],
    lambda r: [["count-similar", "-g", "a"], ["put", "$y = $count + 1"]],
    lambda r: [["step", "-a", "shift,delta", "-f", "i"], ["put", "$y = $i_shift . $i_delta"]],
    lambda r: [["label", "L1,L2"], ["put", "$y = $L1 . $L2 . is_present($a)"]],
    lambda r: [["rename", "a,A"], ["put", "$y = is_present($a) . $A"], ["cut", "-x", "-f", "a"]],
    lambda r: [["rename", "-r", "^f(.)$,g\\1"], ["sort", "-nr", "g3"], ["put", "$y = $g3 . is_present($f3)"]],
]


def hash_cases(rng, tier):
    """Wide records (>= 12 fields, where the lazy key index kicks in) through verbs that look up, rename, remove and
    re-add keys; every case is run with --hash-records and with --no-hash-records (and the default)."""
    i = 0
    while True:
        i += 1
        r = rng.fork("hash", i)
        n = r.choice([1, 2, 5, 12, 30])
        recs = []
        nwide = r.randint(8, 16)
        for k in range(n):
            rec = [("a", r.choice(VOCAB_A)), ("b", r.choice(VOCAB_B)), ("i", str(r.randint(0, 40))), ("x", "%.4f" % r.random())]
            if not r.chance(0.15):
                rec += [("f%d" % j, str(r.randint(0, 99))) for j in range(nwide)]
            if r.chance(0.2):
                rec.pop(r.below(len(rec)))
            recs.append(rec)
        fmt = r.choice(["dkvp", "json", "csvlite"])
        text = {"dkvp": to_dkvp, "json": to_json, "csvlite": to_csv}[fmt](recs)
        iflags = {"dkvp": [], "json": ["--ijson"], "csvlite": ["--icsvlite"]}[fmt]
        verbs = []
        for _ in range(r.randint(1, 3)):
            v = r.choice(KEY_VERBS)(r)
            verbs += v if isinstance(v[0], list) else [v]
        args = ["mlr"] + iflags + r.choice([[], ["--ojson"], ["--oxtab"]]) + chain_args(verbs) + ["in0.txt"]
        yield {"kind": "hash", "args": args, "files": {"in0.txt": text}, "cseed": r.randint(1, 1 << 40), "nconf": 4 if tier == "quick" else 6,
               "force_flags": [["--hash-records"], ["--no-hash-records"], ["--no-hash-records", "--records-per-batch", "1"]]}


# ---------------------------------------------------------------- one value object in many records

ALIAS_SOURCES = [
    # stages which may put the same value object (a filler, a constant, an out-of-stream variable, the previous record's
    # value) into many records
    lambda r: ["fill-empty", "-v", r.choice(["0", "7", "1.5", "abc", "0x10"])],
    lambda r: ["fill-empty", "-S", "-v", "3"],
    lambda r: ["fill-empty", "--only-if-blank", "-v", "4"] if False else ["fill-empty"],
    lambda r: ["fill-down", "-a", "-f", "e"],
    lambda r: ["fill-down", "-f", "e"],
    lambda r: ["unsparsify", "--fill-with", r.choice(["0", "9", "u"])],
    lambda r: ["unsparsify", "-f", "e,g,h", "--fill-with", "5"],
    lambda r: ["template", "-f", "a,e,g,i", "--fill-with", "6"],
    lambda r: ["put", "begin { @c = 3 } $g = @c"],
    lambda r: ["put", "begin { @m = {\"p\": 1, \"q\": {\"r\": 2}} } $g = @m"],
    lambda r: ["put", "begin { @m = {\"p\": 1} } $* = mapsum($*, @m)"],
    lambda r: ["put", "@last = is_present(@last) ? @last : $i; $g = @last"],
    lambda r: ["put", "$g = $i; $h = $g"],
    lambda r: ["put", "-S", "$g = $e . \"\""] if False else ["put", "$g = $e"],
    lambda r: ["step", "-a", "shift,shift_lag,shift_lead", "-f", "i"],
    lambda r: ["step", "-a", "ewma", "-d", "0.1,0.9", "-f", "i"],
    lambda r: ["merge-fields", "-k", "-a", "sum,count", "-f", "i,e", "-o", "mf"],
    lambda r: ["count-similar", "-g", "a"],
    lambda r: ["fraction", "-f", "i"],
    lambda r: ["nest", "--evar", ";", "-f", "b"],
    lambda r: ["sec2gmt", "-1", "e"],
    lambda r: ["having-fields", "--at-least", "a"],
    lambda r: ["seqgen-free"] if False else ["cat", "-n", "-g", "a"],
]

ALIAS_USERS = [
    lambda r: ["put", "$y = $e + 1"],
    lambda r: ["put", "$y = $e . \"s\"; $z = $g + 1"],
    lambda r: ["put", "$t = typeof($e) . \":\" . typeof($g) . \":\" . asserting_not_error($e)"],
    lambda r: ["put", "$e = $e * 2"],
    lambda r: ["put", "$g[\"p\"] = NR"] if False else ["put", "if (is_map($g)) { $g[\"p\"] = $i } else { $g = $g . \"x\" }"],
    lambda r: ["put", "$* = mapsum($*, {\"w\": $e})"],
    lambda r: ["sec2gmt", "e"],
    lambda r: ["format-values", "-n", "-f", "%.2f"],
    lambda r: ["sort", "-nr", "e"],
    lambda r: ["stats1", "-a", "sum,count,mode", "-f", "e,g"],
    lambda r: ["top", "-f", "e", "-a"],
    lambda r: ["step", "-a", "delta,rsum", "-f", "e"],
    lambda r: ["fill-empty", "-v", "8"],
    lambda r: ["cat"],
]

ALIAS_OFLAGS = [["--ojson", "--jvquoteall"], ["--ojsonl", "--jvquoteall"], ["--ojson"], ["--ojson", "--jvstack"], ["--ojsonl"], [], ["--ofmt", "%.3f"],
                ["--ojson", "--ofmt", "%.2lf"], ["--oxtab"], ["--ocsv", "--quote-all"], ["--oflatsep", ":"], ["--ojson", "--no-auto-unflatten"],
                ["--ocsv", "--quote-original"] if False else ["--otsv"], ["--opprint", "--right"]]


ALIAS_SOURCES_COLL = [
    lambda r: ["fill-down", "-f", "m"],
    lambda r: ["fill-down", "-a", "-f", "m"],
    lambda r: ["fill-down", "--only-if-blank", "-f", "m"],
    lambda r: ["fill-down", "-a"],
    lambda r: ["put", "is_present($m) && is_map($m) { @last = $m } is_absent($m) || is_empty($m) { $m = @last }"],
    lambda r: ["put", "begin { @d = {\"hits\": 0, \"tags\": [0, 0]} } if (!is_map($m)) { $m = @d }"],
    lambda r: ["put", "$n = $m"],
    lambda r: ["put", "-q", "@recs[NR] = $*; end { emit @recs, \"NR\" }"],
    lambda r: ["unsparsify"],
    lambda r: ["step", "-a", "shift", "-f", "m"] if False else ["tac"],
    lambda r: ["count-similar", "-g", "a"],
    lambda r: ["repeat", "-n", "2"],
    lambda r: ["bootstrap"] if False else ["cat", "-n"],
]

ALIAS_USERS_COLL = [
    lambda r: ["put", "if (is_map($m)) { $m[\"hits\"] += 1 }"],
    lambda r: ["put", "if (is_map($m)) { $m[\"tags\"][1] = NR }"],
    lambda r: ["put", "if (is_map($m)) { $m[\"seen\"] = $i } if (is_map($n)) { $n[\"seen2\"] = $i }"],
    lambda r: ["put", "if (is_map($m)) { unset $m[\"hits\"] }"],
    lambda r: ["put", "if (is_map($m)) { $m[\"tags\"][2] .= \"x\" }"],
    lambda r: ["put", "if (is_map($n)) { $n[\"hits\"] = -1 }"],
    lambda r: ["put", "for (k, v in $*) { if (is_map(v)) { $[k][\"mark\"] = NR } }"],
    lambda r: ["sort-within-records"],  # not -r: it takes an optional regex and would swallow a file name that follows
    lambda r: ["flatten"],
    lambda r: ["cat"],
]


def alias_coll_case(r, tier):
    """Map- and array-valued fields: a stage that copies a field from one record to another must copy the collection,
    not share it - a later stage edits collections in place."""
    n = r.choice([3, 8, 20, 60, 700])
    recs = []
    for k in range(n):
        rec = {"a": r.choice(VOCAB_A), "i": r.randint(0, 40)}
        z = r.random()
        if z < 0.4 or k == 0:
            rec["m"] = {"hits": r.randint(0, 9), "tags": [r.randint(0, 9), "t%d" % k]}
        elif z < 0.6:
            rec["m"] = ""
        recs.append(rec)
    import json as _json
    text = "[\n" + ",\n".join(_json.dumps(x) for x in recs) + "\n]\n"
    verbs = [r.choice(ALIAS_SOURCES_COLL)(r)]
    for _ in range(r.randint(1, 2)):
        verbs.append(r.choice(ALIAS_USERS_COLL)(r))
    args = ["mlr", "--ijson", r.choice(["--ojson", "--ojsonl", "--ojson", "--oxtab"])] + chain_args(verbs) + ["in0.txt"]
    return {"kind": "alias", "args": args, "files": {"in0.txt": text}, "cseed": r.randint(1, 1 << 40), "nconf": 5 if tier == "quick" else 8,
            "force_preempt": [2, 5, 20, 100]}


def alias_cases(rng, tier):
    """A stage that may hand the same value object to many records, then stages (and a writer) that read, retype, format
    or modify record values: whatever one stage does to the value in one record must not show in another record, for
    any batch size and schedule."""
    i = 0
    while True:
        i += 1
        r = rng.fork("alias", i)
        if r.chance(0.4):
            yield alias_coll_case(r, tier)
            continue
        if r.chance(0.04):
            # process-wide state set by one stage and consulted by another: the time zone
            n = r.choice([3, 40, 700])
            text = "".join("t=%d,i=%d\n" % (k * 3600 * 5, k) for k in range(n))
            user = r.choice(["$a = sec2localtime($t)", "$a = sec2localdate($t)", "$a = strftime_local($t, \"%H\", \"Asia/Istanbul\")", "$a = localtime2sec(\"1970-01-02 00:00:00\")"])
            setter = r.choice(["ENV[\"TZ\"] = \"Asia/Tokyo\"", "NR == 2 { ENV[\"TZ\"] = \"America/Sao_Paulo\" }", "end { ENV[\"TZ\"] = \"Asia/Tokyo\" }"])
            verbs = [["put", user], ["put", setter]] if r.chance(0.7) else [["put", setter], ["put", user]]
            yield {"kind": "alias", "args": ["mlr"] + chain_args(verbs) + ["in0.txt"], "files": {"in0.txt": text}, "env": {"TZ": "UTC"}, "cseed": r.randint(1, 1 << 40),
                   "nconf": 5 if tier == "quick" else 8}
            continue
        n = r.choice([2, 5, 12, 40, 600, 1300])
        recs = []
        for k in range(n):
            rec = [("a", r.choice(VOCAB_A)), ("b", r.choice(["p;q", "r", "s;t;u"])), ("i", str(r.randint(0, 40))),
                   ("e", "" if r.chance(0.6) else str(r.randint(1, 9)))]
            if r.chance(0.3):
                rec.append(("h", ""))
            recs.append(rec)
        fmt = r.choice(["dkvp", "json", "dkvp"])
        text = {"dkvp": to_dkvp, "json": to_json}[fmt](recs)
        iflags = {"dkvp": [], "json": ["--ijson"]}[fmt]
        verbs = [r.choice(ALIAS_SOURCES)(r)]
        if r.chance(0.3):
            verbs.append(r.choice(ALIAS_SOURCES)(r))
        for _ in range(r.randint(1, 2)):
            verbs.append(r.choice(ALIAS_USERS)(r))
        args = ["mlr"] + iflags + r.choice(ALIAS_OFLAGS) + chain_args(verbs) + ["in0.txt"]
        yield {"kind": "alias", "args": args, "files": {"in0.txt": text}, "cseed": r.randint(1, 1 << 40), "nconf": 5 if tier == "quick" else 8,
               "force_preempt": [2, 5, 20, 100]}


# ---------------------------------------------------------------- verbs of the same kind side by side, preempted mid-function

SAME_KIND = [
    # grouping verbs (build grouping keys from the same helpers)
    [lambda r: ["count-similar", "-g", r.choice(["a", "b", "a,b"]), "-o", "n%d" % r.randint(1, 9)], lambda r: ["cat", "-n", "-g", r.choice(["a", "a,b"])],
     lambda r: ["head", "-n", "2", "-g", r.choice(["a", "b"])], lambda r: ["step", "-a", "counter,rsum", "-f", "i", "-g", r.choice(["a", "b"])],
     lambda r: ["stats1", "-a", "count,sum", "-f", "i", "-g", r.choice(["a", "a,b"])], lambda r: ["top", "-n", "2", "-f", "x", "-g", "a", "-a"],
     lambda r: ["uniq", "-g", r.choice(["a", "a,b"]), "-c"], lambda r: ["count-distinct", "-f", r.choice(["a", "b,a"])],
     lambda r: ["fill-down", "-f", "b"], lambda r: ["decimate", "-n", "2", "-g", "a"], lambda r: ["tail", "-n", "2", "-g", "b"],
     lambda r: ["merge-fields", "-k", "-a", "sum", "-c", "x,y", "-o", "m%d" % r.randint(1, 9)], lambda r: ["fraction", "-f", "i", "-g", "a"],
     lambda r: ["put", "-q", "@s[$a][$b] = $i; end { emit @s, \"a\", \"b\" }"], lambda r: ["nest", "--ivar", ";", "-f", "b"],
     lambda r: ["sec2gmt", "i"], lambda r: ["group-by", "a"], lambda r: ["count", "-g", "b"]],
    # DSL stages (interpreter state, regex captures, type inference, number formatting)
    [lambda r: ["put", r.choice(["$s = sub($a, \"(.)(.)\", \"\\2\\1\")", "if ($a =~ \"^(.)(.*)$\") { $c = \"\\2\\1\" }", "$f = fmtnum($x, \"%.2f\") . \":\" . fmtifnum($i, \"%05d\")",
                                "$t = typeof($i) . typeof($x) . typeof($b)", "$k = strlen($a . $b) + $i * 2", "$j = joink($*, \",\")", "$m = format_values is absent ? 1 : 2" if False else "$m = asserting_not_null($a)",
                                "$h = md5($a) . crc32($b)", "$u = toupper($a) . capitalize($b)", "$d = sec2gmt($i * 86400)", "$sp = splitax($a, \"a\")[1]",
                                "$z = $x . \"\"; $w = $z + 1", "$n = NR . \":\" . NF", "func f(s) { return s . s } $g = f($a)",
                                "func f(a) { return a * 10 } $h1 = apply([$i], f)[1]", "func f(a) { return a + 1 } $h2 = apply([$i], f)[1]",
                                "func f(a, b) { return b <=> a } $h3 = joinv(sort([$i, 3, 40], f), \";\")", "func f(a, b) { return a <=> b } $h4 = joinv(sort([$i, 3, 40], f), \";\")",
                                "func f(acc, e) { return acc + e } $h5 = fold([$i, 1, 2], f, 0)", "func f(acc, e) { return acc . e } $h6 = fold([$i, 1, 2], f, \"\")"])],
     lambda r: ["filter", r.choice(["$a =~ \"^[pew]\"", "$x > 0.2 && $i < 39", "strlen($b) >= 0", "is_string($a)"])],
     lambda r: ["sec2gmt", "-3", "i"], lambda r: ["format-values", "-n", "-f", "%.3f"], lambda r: ["gsub", "-f", "a,b", "[aeiou]", "_"], lambda r: ["sub", "-f", "a", "^(.)", "<\\1>"],
     lambda r: ["case", "-u", "-f", "a,b"], lambda r: ["having-fields", "--any-matching", "^[ab]$"], lambda r: ["rename", "-r", "^(.)$,f_\\1"], lambda r: ["cut", "-r", "-f", "^[abix]"],
     lambda r: ["sort-within-records"], lambda r: ["fill-empty"], lambda r: ["json-stringify", "-f", "a"], lambda r: ["reorder", "-e", "-f", "a"]],
]


SAME_KIND.append(
    # number-formatting stages (a process-wide cache of compiled format strings sits behind all of them)
    [lambda r: ["put", r.choice(["$f1 = fmtnum($x, \"%.2f\")", "$f2 = fmtnum($i, \"%08d\")", "$f3 = fmtifnum($b, \"%.1f\") . fmtnum($i, \"%x\")", "$f4 = fmtnum($x, \"%.\" . ($i % 7) . \"f\")",
                                 "$f5 = fmtnum($i, \"%0\" . ($i % 5 + 1) . \"d\")", "$f6 = hexfmt($i) . fmtnum($y, \"%.3e\")", "$f7 = fmtnum($i * 1.5, \"%d\")", "$f8 = fmtifnum($*, \"%.4f\")[\"x\"]"])],
     lambda r: ["format-values", "-n", "-f", r.choice(["%.3f", "%.5lf", "%08.3f"])], lambda r: ["format-values", "-i", r.choice(["%08llx", "%d"])],
     lambda r: ["sec2gmt", "-" + str(r.randint(1, 9)), "i"], lambda r: ["fraction", "-f", "i"], lambda r: ["merge-fields", "-a", "mean,var", "-f", "x,y", "-o", "xy"],
     lambda r: ["step", "-a", "ewma", "-d", "0.1,0.9", "-f", "x"], lambda r: ["stats1", "-a", "mean,p50", "-f", "x,y"]])


def race_cases(rng, tier):
    """Chains of 2-4 stages of the same kind (grouping verbs; DSL / regex / formatting stages), small batches, and
    schedules that preempt goroutines at loop heads: unsynchronised state shared between verb goroutines shows as
    output that depends on the schedule."""
    i = 0
    while True:
        i += 1
        r = rng.fork("race", i)
        pool = r.choice(SAME_KIND)
        verbs = [r.choice(pool)(r) for _ in range(r.randint(2, 4))]
        n = r.choice([8, 20, 50])
        recs = gen_records(r, n, sparse=r.chance(0.2), wide=r.chance(0.2))
        fmt = r.choice(["dkvp", "json", "csvlite"])
        text = {"dkvp": to_dkvp, "json": to_json, "csvlite": to_csv}[fmt](recs)
        iflags = {"dkvp": [], "json": ["--ijson"], "csvlite": ["--icsvlite"]}[fmt]
        args = ["mlr"] + iflags + r.choice([[], ["--ojson"]]) + chain_args(verbs) + ["in0.txt"]
        yield {"kind": "race", "args": args, "files": {"in0.txt": text}, "cseed": r.randint(1, 1 << 40), "nconf": 5 if tier == "quick" else 8,
               "batches": [1, 1, 2, 3, 5], "force_preempt": [2, 3, 5, 10, 30]}


# ---------------------------------------------------------------- tail -f

TAIL_VERBS = [
    ["cat"], ["cat", "-n"], ["put", "$z = $i . \"_\" . NR"], ["rename", "a,aa"], ["cut", "-x", "-f", "b"], ["reorder", "-e", "-f", "a"],
    ["sec2gmt", "i"], ["fill-empty"], ["sort-within-records"], ["put", "$s = strlen($a)"], ["label", "p,q"], ["regularize"],
    ["step", "-a", "delta,counter", "-f", "i"], ["fill-down", "-f", "b"], ["gsub", "-f", "a", "a", "A"], ["cat", "-n", "-g", "a"],
]
TAIL_IN = [("dkvp", [], 0), ("csv", ["--icsv"], 1), ("tsv", ["--itsv"], 1), ("jsonl", ["--ijsonl"], 0), ("nidx", ["--inidx", "--ifs", " "], 0),
           ("csvlite", ["--icsvlite"], 1)]
TAIL_OUT = [("dkvp", ["--odkvp"]), ("json", ["--ojson"]), ("jsonl", ["--ojsonl"]), ("csv", ["--ocsv"]), ("tsv", ["--otsv"]),
            ("nidx", ["--onidx"]), ("csvlite", ["--ocsvlite"]), ("markdown", ["--omd"]), ("xtab", ["--oxtab"])]


def tail_input(rng, fmt, n):
    recs = []
    for k in range(n):
        recs.append([("a", rng.choice(VOCAB_A)), ("b", rng.choice(VOCAB_A)), ("i", str(rng.randint(0, 99)))])
    if fmt == "dkvp":
        return to_dkvp(recs)
    if fmt in ("csv", "csvlite"):
        return "a,b,i\n" + "".join(",".join(v for _, v in r) + "\n" for r in recs)
    if fmt == "tsv":
        return "a\tb\ti\n" + "".join("\t".join(v for _, v in r) + "\n" for r in recs)
    if fmt == "jsonl":
        return "".join(json.dumps(dict((k, (int(v) if k == "i" else v)) for k, v in r)) + "\n" for r in recs)
    if fmt == "nidx":
        return "".join(" ".join(v for _, v in r) + "\n" for r in recs)
    raise ValueError(fmt)


def tail_cases(rng, tier):
    i = 0
    while True:
        i += 1
        r = rng.fork("tail", i)
        ifmt, iflags, hdr = r.choice(TAIL_IN)
        ofmt, oflags = r.choice(TAIL_OUT)
        n = r.randint(1, 9)
        text = tail_input(r, ifmt, n)
        verbs = [r.choice(TAIL_VERBS) for _ in range(r.randint(1, 3))]
        if ifmt == "nidx":
            verbs = [v for v in verbs if v[0] in ("cat", "regularize", "sort-within-records", "fill-empty")] or [["cat"]]
        # filters are fully streaming too: a record that is dropped produces nothing, the others must still appear at once
        passes = [True] * n
        if ifmt != "nidx" and r.chance(0.4):
            th = r.choice([20, 50, 80])
            pos = 0
            # the filter comes first, so that it sees $i as read
            verbs.insert(pos, r.choice([["filter", "$i >= %d" % th], ["filter", "-x", "$i < %d" % th], ["put", "-q", "$i >= %d { emit $* }" % th] if False else ["filter", "$i >= %d" % th]]))
            vals = [int(ln.split(",")[-1].split("=")[-1]) if ifmt in ("dkvp", "csv", "csvlite") else None for ln in text.strip().split("\n")[(1 if ifmt in ("csv", "csvlite", "tsv") else 0):]]
            if ifmt == "tsv":
                vals = [int(ln.split("\t")[-1]) for ln in text.strip().split("\n")[1:]]
            if ifmt == "jsonl":
                vals = [json.loads(ln)["i"] for ln in text.strip().split("\n")]
            passes = [v >= th for v in vals]
        # arrival plan: whole lines, or random sub-line chunks
        b = text.encode()
        arr = []
        roll = r.random()
        if roll < 0.45:
            pos = 0
            for line in b.split(b"\n")[:-1]:
                pos += len(line) + 1
                arr.append(pos)
        elif roll < 0.7:
            # bursts: two or three lines arrive in one write
            pos = 0
            k = 0
            for line in b.split(b"\n")[:-1]:
                pos += len(line) + 1
                k += 1
                if k >= r.choice([1, 2, 2, 3]):
                    arr.append(pos)
                    k = 0
            if not arr or arr[-1] != len(b):
                arr.append(len(b))
        else:
            pos = 0
            while pos < len(b):
                pos = min(len(b), pos + r.randint(1, 12))
                arr.append(pos)
        args = ["mlr", "--records-per-batch", "1", "--fflush"] + iflags + oflags + chain_args(verbs)
        cfgs = []
        for k in range(3 if tier == "quick" else 6):
            c = {"sched": random_sched(r, None), "rtseed": r.randint(1, 1 << 30)}
            if r.chance(0.3):
                c["knobs"] = {"bufr": r.choice([16, 64, 4096])}
            if r.chance(0.3):
                c["chunk"] = {"max": r.choice([1, 3, 64]), "mode": "random", "seed": r.randint(1, 1 << 30)}
            cfgs.append(c)
        yield {"kind": "tail", "args": args, "stdin": text, "arrivals": arr, "ofmt": ofmt, "ifmt": ifmt, "in_header_lines": hdr, "configs": cfgs, "passes": passes}


# ---------------------------------------------------------------- --seed

def seed_cases(rng, tier):
    i = 0
    while True:
        i += 1
        r = rng.fork("seed", i)
        nstage = r.choice([1, 1, 1, 2])
        verbs = []
        nr = 0
        for k in range(r.randint(1, 3)):
            if nr < nstage and (r.chance(0.6) or k == 0):
                verbs.append(r.choice(BY_TAG["R"])(r))
                nr += 1
            else:
                verbs.append(r.choice(BY_TAG["S"][:20])(r))
        iflags, text, fmt = gen_input(r, n=r.choice([3, 10, 40]))
        args = ["mlr", "--seed", str(r.randint(1, 99999))] + iflags + chain_args(verbs) + ["in0.txt"]
        yield {"kind": "seed", "args": args, "files": {"in0.txt": text}, "rng_stages": nr, "cseed": r.randint(1, 1 << 40),
               "nconf": 5 if tier == "quick" else 8}


# ---------------------------------------------------------------- shrinking of inputs

def shrink_input(case):
    """Candidates with smaller inputs / shorter chains (generated kinds only)."""
    if case.get("kind") not in ("chain", "termination", "seed", "fault", "hash", "race"):
        return
    files = case.get("files") or {}
    for name, text in files.items():
        lines = text.split("\n")
        if len(lines) > 3:
            for keep in (lines[:len(lines) // 2], lines[len(lines) // 2:]):
                c = dict(case)
                f2 = dict(files)
                f2[name] = "\n".join(keep) + ("\n" if keep and keep[-1] != "" else "")
                c["files"] = f2
                yield c
    args = case.get("args") or []
    if "then" in args:
        idx = [i for i, a in enumerate(args) if a == "then"]
        # find start of chain: first verb position = after main flags; drop one segment at a time
        # segments between 'then's; first segment starts at the last main-flag boundary which we do not know
        # exactly, so only drop non-first segments.
        bounds = idx + [len(args) - len([n for n in files if n in args])]
        for j in range(len(idx)):
            c = dict(case)
            c["args"] = args[:idx[j]] + args[bounds[j + 1]:]
            yield c
