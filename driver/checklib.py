"""Common machinery of a check: budget, evidence, violations, shrinking, replay files, known findings."""
import hashlib
import json
import os
import sys
import threading
import time
from concurrent.futures import ThreadPoolExecutor, as_completed

import build
from simlib import HarnessError, Pool, Rng, sha12

VERIF = build.VERIF
# sensitivity runs against scratch trees (VERIF_REPO=...) must not overwrite the evidence of /repo
_OUT = os.environ.get("VERIF_OUT_DIR")
REPLAYS = os.path.join(_OUT or VERIF, "replays")
EVIDENCE = os.path.join(_OUT or VERIF, "evidence")


def jhash(obj):
    return hashlib.sha256(json.dumps(obj, sort_keys=True, default=str).encode()).hexdigest()[:16]


class Violation:
    def __init__(self, klass, detail, case):
        self.klass = klass
        self.detail = detail
        self.case = case


class Verdict:
    """What evaluating one case produced."""

    def __init__(self):
        self.violations = []  # (class, detail dict)
        self.runs = []        # Result objects (for evidence)
        self.skipped = None   # reason, if the case could not be judged
        self.notes = {}

    def add(self, klass, **detail):
        self.violations.append((klass, detail))


class Check:
    def __init__(self, module, tier, seed, budget_s=None, jobs=16):
        self.m = module
        self.prop = module.PROPERTY
        self.tier = tier
        self.seed = seed
        self.budget = budget_s if budget_s is not None else module.BUDGET[tier]
        self.worker = build.build()
        self.t0 = time.time()  # the budget is exploration time: building the worker is not part of it
        # On a loaded machine a wall-clock budget buys fewer cases. The quick tier therefore goes on until a minimum
        # number of cases has been evaluated, up to three times its budget (only when the budget is the registered one).
        self.min_cases = getattr(module, "MIN_CASES", {}).get(tier, 0) if budget_s is None else 0
        self.budget_cap = self.budget * 3
        self.pool = Pool(self.worker, jobs=jobs, tag=self.prop)
        self.lock = threading.Lock()
        self.cases = 0
        self.skipped = {}
        self.evals = 0
        self.distinct = set()
        self.trace_hashes = set()
        self.fault_fired = {}
        self.policies = {}
        self.statuses = {}
        self.probes = {}
        self.sites = {}
        self.states_sum = 0
        self.samples = []
        self.kinds = {}
        self.violations = []
        self.known_hits = {}
        self.known = load_known(self.prop)
        self.sim_seconds = 0.0
        self.stub_notes = set()

    def time_left(self):
        return self.budget - (time.time() - self.t0)

    # -------------------------------------------------------- evidence accounting
    def account(self, case, verdict):
        ch = jhash({k: v for k, v in case.items() if k not in ("configs",)})
        with self.lock:
            self.cases += 1
            self.kinds[case.get("kind", "?")] = self.kinds.get(case.get("kind", "?"), 0) + 1
            if verdict.skipped:
                self.skipped[verdict.skipped] = self.skipped.get(verdict.skipped, 0) + 1
            for r in verdict.runs:
                self.evals += 1
                st = r.klass()
                self.statuses[st] = self.statuses.get(st, 0) + 1
                pol = (r.spec.get("sched") or {}).get("policy", r.spec.get("mode", "?"))
                if r.spec.get("mode") == "staged":
                    pol = "staged-reference"
                elif (r.spec.get("sched") or {}).get("starve"):
                    pol += "+starve"
                elif (r.spec.get("sched") or {}).get("favor"):
                    pol += "+favor"
                if (r.spec.get("sched") or {}).get("preempt"):
                    self.probes["runs_with_preemption_at_loop_heads"] = self.probes.get("runs_with_preemption_at_loop_heads", 0) + 1
                    self.probes["preempt_yields"] = self.probes.get("preempt_yields", 0) + (r.sites.get("preempt", 0))
                self.policies[pol] = self.policies.get(pol, 0) + 1
                if getattr(r, "clock_jumps", 0):
                    self.probes["timers_fired_by_clock_jump"] = self.probes.get("timers_fired_by_clock_jump", 0) + r.clock_jumps
                if (r.spec.get("sched") or {}).get("timers_first"):
                    self.probes["runs_with_timers_before_environment"] = self.probes.get("runs_with_timers_before_environment", 0) + 1
                if getattr(r, "map_checks", 0):
                    self.probes["shared_map_accesses_checked"] = self.probes.get("shared_map_accesses_checked", 0) + r.map_checks
                    if r.map_shared:
                        self.probes["runs_with_a_map_touched_by_two_goroutines"] = self.probes.get("runs_with_a_map_touched_by_two_goroutines", 0) + 1
                for f in r.fired:
                    k = f["kind"] + ":" + f["what"].split(" ")[0]
                    kk = f["kind"]
                    self.fault_fired[kk] = self.fault_fired.get(kk, 0) + 1
                if r.status == "crash":
                    self.fault_fired["crash"] = self.fault_fired.get("crash", 0) + 1
                if r.spec.get("mode") != "staged" and (r.branching >= 1 or r.fired or r.status == "crash"):
                    self.distinct.add((ch, r.trace_hash))
                if r.trace_hash:
                    self.trace_hashes.add(r.trace_hash)
                self.states_sum += r.states
                for s, n in r.sites.items():
                    self.sites[s] = self.sites.get(s, 0) + n
            for k, v in verdict.notes.items():
                self.probes[k] = self.probes.get(k, 0) + v
            if len(self.samples) < 4 and verdict.runs and not verdict.skipped:
                self.samples.append(self.m.sample_of(case, verdict))

    # -------------------------------------------------------- violations
    def report(self, case, verdict):
        """Handles the violations of one evaluated case (shrink, known findings, replay file)."""
        for klass, detail in verdict.violations:
            if os.environ.get("VERIF_TRIAGE"):
                with self.lock:
                    self.triage = getattr(self, "triage", 0) + 1
                    print("TRIAGE %s kind=%s args=%s detail=%s" % (klass, case.get("kind"), json.dumps(case.get("args")), json.dumps(detail, default=str)[:700]))
                continue
            kf = self.m.known_match(case, klass, detail, self.known)
            if kf:
                with self.lock:
                    self.known_hits[kf] = self.known_hits.get(kf, 0) + 1
                continue
            with self.lock:
                if any(v.klass == klass for v in self.violations) and len(self.violations) >= 3:
                    continue
                self.violations.append(Violation(klass, detail, case))

    def finalize_violations(self):
        """Shrinks and writes replay files; prints VIOLATION lines. Returns count."""
        out = 0
        seen = set()
        for v in self.violations:
            if v.klass in seen:
                continue
            seen.add(v.klass)
            case = v.case
            try:
                case = self.shrink(case, v.klass)
            except HarnessError as e:
                sys.stderr.write("shrink trouble: %s\n" % e)
            try:
                case = self.minimise_schedule(case, v.klass)
            except HarnessError as e:
                sys.stderr.write("schedule minimisation trouble: %s\n" % e)
            # confirm from the replay content, twice
            ok = 0
            last = None
            for _ in range(2):
                vd = self.m.evaluate(case, self)
                if any(k == v.klass for k, _ in vd.violations):
                    ok += 1
                    last = [d for k, d in vd.violations if k == v.klass][0]
            if ok < 2 and (case.get("children") or v.case.get("children")):
                # real child processes (pipe targets, prepipes) have their own timing, which the simulator does not
                # control: such a run is not covered by the determinism claim and a one-off is neither a violation nor
                # harness trouble; it is counted
                sys.stderr.write("note: class %s with real children did not reproduce (%d/2) - not reported\n" % (v.klass, ok))
                self.probes["unreproducible_with_real_children"] = self.probes.get("unreproducible_with_real_children", 0) + 1
                continue
            if ok < 2:
                # does not reproduce from its own replay: harness error, never a violation
                sys.stderr.write("HARNESS: violation class %s did not reproduce (%d/2) - not reported\n%s\n" % (
                    v.klass, ok, json.dumps(v.detail, default=str)[:2000]))
                self.harness_trouble = True
                continue
            os.makedirs(REPLAYS, exist_ok=True)
            rp = {"property": self.prop, "class": v.klass, "detail": last, "case": case,
                  "tree": tree_hash(), "seed": self.seed, "tier": self.tier}
            try:
                rp["schedule_and_fault_trace"] = self.trace_of(case)
            except Exception as e:  # human-readable extra only
                rp["schedule_and_fault_trace"] = "unavailable: %s" % e
            path = os.path.join(REPLAYS, "%s-%s.json" % (self.prop, jhash(rp)[:10]))
            with open(path, "w") as f:
                json.dump(rp, f, indent=1, default=str)
            print("VIOLATION property=%s replay=%s" % (self.prop, path))
            print("  class=%s detail=%s" % (v.klass, json.dumps(last, default=str)[:1500]))
            out += 1
        return out

    harness_trouble = False

    def shrink(self, case, klass, max_evals=120):
        """Greedy shrinking with property-specific candidates while the same class persists."""
        if not hasattr(self.m, "shrink_candidates"):
            return case
        evals = 0
        improved = True
        t_end = time.time() + 90
        while improved and evals < max_evals and time.time() < t_end:
            improved = False
            for cand in self.m.shrink_candidates(case):
                evals += 1
                if evals >= max_evals or time.time() > t_end:
                    break
                vd = self.m.evaluate(cand, self)
                if any(k == klass for k, _ in vd.violations):
                    # must reproduce twice to be accepted
                    vd2 = self.m.evaluate(cand, self)
                    if any(k == klass for k, _ in vd2.violations):
                        case = cand
                        improved = True
                        break
        return case

    # -------------------------------------------------------- schedule minimisation
    def _holds(self, case, klass, twice=True):
        for _ in range(2 if twice else 1):
            vd = self.m.evaluate(case, self)
            if not any(k == klass for k, _ in vd.violations):
                return None
        return vd

    def trace_of(self, case):
        """Human-readable event traces (scheduler steps 'goroutine @site /candidates', select draws, seam notes for
        file operations and fired faults) of the simulated runs of a (minimised) failing case."""
        import copy
        c2 = copy.deepcopy(case)
        for sl in sched_slots(c2):
            sl["sched"]["want_trace"] = True
        vd = self.m.evaluate(c2, self)
        out = []
        for r in vd.runs:
            if (r.spec.get("sched") or {}).get("want_trace"):
                out.append({"args": r.spec.get("args"), "outcome": r.klass(), "fired": r.fired[:6], "events": len(r.trace),
                            "trace": r.trace[:150] + (["... (%d more)" % (len(r.trace) - 300)] if len(r.trace) > 300 else []) + r.trace[150:][-150:]})
        return out[:4]

    def minimise_schedule(self, case, klass, max_evals=220, max_s=150):
        """Turns the (policy, seed) schedules of a shrunk failing case into explicit choice lists (indices into the
        name-sorted candidate list at each scheduler step, select draws included) and minimises them: shortest
        prefix (the rest defaults to 0 = first candidate), then ddmin-style zeroing of chunks, while the same
        violation class persists.  The replay file then holds the schedule itself, not a generator seed."""
        import copy
        slots = sched_slots(case)
        if not slots or len(slots) > 4:
            return case
        t_end = time.time() + max_s
        work = copy.deepcopy(case)
        wslots = sched_slots(work)
        for sl in wslots:
            sl["sched"]["want_choices"] = True
        vd = self.m.evaluate(work, self)
        if not any(k == klass for k, _ in vd.violations):
            return case
        got = {}
        for r in vd.runs:
            sc = r.spec.get("sched") or {}
            if sc.get("want_choices"):
                got[sched_key(sc)] = r.choices
        cand = copy.deepcopy(case)
        cslots = sched_slots(cand)
        for sl, wsl in zip(cslots, wslots):
            ch = got.get(sched_key(wsl["sched"]))
            if ch is None:
                return case
            keep = {k: v for k, v in sl["sched"].items() if k in ("crash_step", "max_steps", "max_ticks", "preempt", "timers_first")}
            # where the run is preempted at loop heads is a function of (preempt, seed): the seed stays with it
            sl["sched"] = dict(keep, policy="first", seed=sl["sched"].get("seed", 1) if keep.get("preempt") else 1, choices=list(ch), replay=True)
        if not self._holds(cand, klass):
            return case  # explicit list does not reproduce (should not happen); keep the seed form
        evals = [0]

        def attempt(new_lists):
            if evals[0] >= max_evals or time.time() > t_end:
                return None
            evals[0] += 1
            c2 = copy.deepcopy(cand)
            for sl, nl in zip(sched_slots(c2), new_lists):
                sl["sched"]["choices"] = nl
            return c2 if self._holds(c2, klass, twice=False) else None

        lists = [sl["sched"]["choices"] for sl in cslots]
        for i in range(len(lists)):
            # 1. shortest prefix
            lo, hi = 0, len(lists[i])
            while lo < hi:
                mid = (lo + hi) // 2
                trial = list(lists)
                trial[i] = lists[i][:mid]
                c2 = attempt(trial)
                if c2 is not None:
                    hi = mid
                    cand, lists = c2, trial
                else:
                    lo = mid + 1
            # 2. zero chunks
            n = len(lists[i])
            size = max(1, n // 2)
            while size >= 1 and evals[0] < max_evals and time.time() < t_end:
                pos = 0
                while pos < n:
                    if any(lists[i][pos:pos + size]):
                        trial = list(lists)
                        trial[i] = lists[i][:pos] + [0] * min(size, n - pos) + lists[i][pos + size:]
                        c2 = attempt(trial)
                        if c2 is not None:
                            cand, lists = c2, trial
                    pos += size
                if size == 1:
                    break
                size //= 2
            while lists[i] and lists[i][-1] == 0:
                lists[i] = lists[i][:-1]
        for sl, nl in zip(sched_slots(cand), lists):
            sl["sched"]["choices"] = nl
        if not self._holds(cand, klass):
            return case
        cand["schedule_minimised"] = {"evaluations": evals[0], "nonzero_choices": [sum(1 for x in l if x) for l in lists],
                                      "lengths": [len(l) for l in lists]}
        return cand

    # -------------------------------------------------------- main loop
    def run_cases(self, gen, max_cases=None, reserve_s=8):
        """gen yields cases; evaluates them in parallel until the budget is used."""
        jobs = self.pool.jobs
        n = 0
        with ThreadPoolExecutor(jobs) as ex:
            pending = set()
            it = iter(gen)
            exhausted = False
            while True:
                if self.time_left() <= reserve_s and n < self.min_cases and self.budget + 10 <= self.budget_cap and len(self.violations) < 6:
                    self.budget += 10
                while not exhausted and len(pending) < jobs * 2 and self.time_left() > reserve_s and (max_cases is None or n < max_cases):
                    try:
                        case = next(it)
                    except StopIteration:
                        exhausted = True
                        break
                    n += 1
                    pending.add(ex.submit(self._eval_one, case))
                if not pending:
                    break
                done = [f for f in pending if f.done()]
                if not done:
                    time.sleep(0.005)
                    continue
                for f in done:
                    pending.discard(f)
                    f.result()  # propagate HarnessError
                if len(self.violations) >= 6:
                    exhausted = True
        return n

    def _eval_one(self, case):
        vd = self.m.evaluate(case, self)
        self.account(case, vd)
        if vd.violations:
            self.report(case, vd)

    # -------------------------------------------------------- known findings
    def known_findings_pass(self):
        """Re-runs each known finding's reproducer; prints KNOWN-FINDING if it still fails."""
        for kf in self.known:
            if kf.get("status") != "known":
                continue
            case = kf.get("reproducer")
            if not case:
                continue
            vd = self.m.evaluate(case, self)
            self.account(case, vd)
            still = any(k == kf["class"] for k, _ in vd.violations)
            for k, d in vd.violations:
                if k != kf["class"] and not self.m.known_match(case, k, d, self.known):
                    self.report(case, vd)
            if still:
                print("KNOWN-FINDING: property=%s %s" % (self.prop, kf["what"]))
                with self.lock:
                    self.known_hits[kf["id"]] = self.known_hits.get(kf["id"], 0) + 1
            else:
                print("note: known finding %s no longer reproduces" % kf["id"])

    # -------------------------------------------------------- finish
    def finish(self, extra_cov=None, level=None):
        nviol = self.finalize_violations()
        wall = time.time() - self.t0
        runs = self.pool.runs
        cov = {
            "evaluations": self.evals,
            "distinct_nontrivial": len(self.distinct),
            "rule": self.m.RULE,
            "samples": self.samples,
            "cases": self.cases,
            "cases_by_kind": self.kinds,
            "cases_skipped": self.skipped,
            "worker_processes": runs,
            "runs_per_hour": int(runs / wall * 3600) if wall > 0 else 0,
            "cases_per_hour": int(self.cases / wall * 3600) if wall > 0 else 0,
            "seeds_per_hour": int(self.cases / wall * 3600) if wall > 0 else 0,
            "seeds_note": "every case derives its own PRNG seed from (VERIF_SEED, property, case index); every simulated run inside a case has its own schedule seed",
            "simulated_stdin_arrival_events": self.probes.get("stdin_deliveries", 0),
            "scheduler_steps": self.pool.sim_steps,
            "distinct_traces": len(self.trace_hashes),
            "abstract_states_sum": self.states_sum,
            "distinct_sync_sites_reached": len(self.sites),
            "faults_fired": self.fault_fired,
            "runs_by_policy": self.policies,
            "runs_by_outcome": self.statuses,
            "probes": self.probes,
            "simulated_time_note": "Miller has no timers; simulated time advances only through stdin arrival events (counted in probes.stdin_deliveries)",
            "known_findings_hit": self.known_hits,
            "harness_retries": self.pool.retries,
            "components": self.m.COMPONENTS,
        }
        if extra_cov:
            cov.update(extra_cov)
        ev = {
            "property_id": self.prop,
            "tier": self.tier,
            "seed": self.seed,
            "level": level or self.m.LEVEL,
            "coverage": cov,
            "assumptions": self.m.ASSUMPTIONS,
            "wall_s": round(wall, 2),
            "violations": nviol,
        }
        os.makedirs(EVIDENCE, exist_ok=True)
        with open(os.path.join(EVIDENCE, self.prop + ".json"), "w") as f:
            json.dump(ev, f, indent=1, default=str)
        self.pool.close()
        print("%s %s: cases=%d runs=%d distinct=%d violations=%d known=%s wall=%.1fs" % (
            self.prop, self.tier, self.cases, self.evals, len(self.distinct), nviol, self.known_hits, wall))
        if nviol:
            return 1
        if self.harness_trouble:
            return 2
        return 0


def sched_slots(case):
    """All dicts inside case['configs'|'plans'|'variants'] that carry a 'sched' entry (in a fixed order)."""
    out = []

    def walk(x):
        if isinstance(x, dict):
            if isinstance(x.get("sched"), dict):
                out.append(x)
            else:
                for k in sorted(x):
                    walk(x[k])
        elif isinstance(x, list):
            for y in x:
                walk(y)
    for key in ("configs", "plans", "variants"):
        walk(case.get(key))
    return out


def sched_key(sc):
    return json.dumps({k: v for k, v in sc.items() if k not in ("max_steps", "max_ticks", "crash_step")}, sort_keys=True)


def load_known(prop):
    p = os.path.join(VERIF, "known_findings.json")
    if not os.path.exists(p) or os.environ.get("VERIF_IGNORE_KNOWN"):  # the latter: self-test of shrinking/replay on a real finding
        return []
    with open(p) as f:
        data = json.load(f)
    return [k for k in data.get("findings", []) if k.get("property") == prop]


_tree = None


def tree_hash():
    global _tree
    if _tree is None:
        import subprocess
        try:
            repo = build.repo_root()
            a = subprocess.run(["git", "-C", repo, "rev-parse", "HEAD"], capture_output=True, text=True).stdout.strip()
            b = subprocess.run(["git", "-C", repo, "diff", "HEAD", "--", "pkg", "cmd"], capture_output=True).stdout
            _tree = a[:12] + ("+" + hashlib.sha256(b).hexdigest()[:8] if b else "")
        except Exception:
            _tree = "unknown"
    return _tree
