"""C19 - in-place mode never leaves a file half-written."""
import gzip
import json
import zlib

import c04
import c17
import gen
from checklib import Verdict
from simlib import Rng, mkspec, random_sched

PROPERTY = "C19"
LEVEL = "fault_enumeration"
BUDGET = {"quick": 80, "thorough": 1500}
MIN_CASES = {"quick": 800}  # see checklib.Check: quick goes on to this many cases on a loaded machine (up to 3x its budget)
RULE = ("cases: 1-3 named files (dkvp/csv/json; plain, .gz, .z; modes 0600/0644/0755/0640; empty files; sub-directories) x "
        "-I chain (cat, put, head, sort, stats1, nothing, tac, filter). Per case the mutating file-system operations of a "
        "pilot run (temp create, each write(2) to the temp, close, rename, chmod, remove) are ENUMERATED and the process "
        "is stopped before each one (kill -9 semantics: user-space buffers die), under 2+ schedules and small bufio sizes "
        "(so that 'after every n-th written record' is a boundary); plus random scheduler-step crash points and injected "
        "faults (create-temp, temp write@k, close, rename, chmod, remove failures; malformed input at record p; DSL failure; "
        "inexpressible output; missing file; refused inputs). Non-trivial = a crash or fault actually fired or the "
        "scheduler had a choice; distinct = distinct (case hash, trace hash).")
ASSUMPTIONS = [
    "process-crash semantics (kill -9), not power loss: Miller never calls fsync and the property is stated for a stopped process",
    "the reference result of a file is what the same tree's staged executor prints for the same command without -I on that file alone",
    "R7: 'no temporary file left' is asserted only when the exit came through entrypoint.exitOnError",
    "rename(2)/chmod(2) are the kernel's (tmpfs)",
]
COMPONENTS = c04.COMPONENTS

CHAINS = [
    [["cat"]], [["cat", "-n"]], [["put", "$z = NR . \":\" . FILENAME"]], [["head", "-n", "2"]], [["head", "-n", "1"], ["put", "$k = 1"]],
    [["sort", "-f", "a"]], [["sort", "-nr", "i"]], [["stats1", "-a", "count,sum", "-f", "i", "-g", "a"]], [["nothing"]], [["tac"]],
    [["filter", "$i > 10"]], [["sec2gmt", "i"]], [["put", "-q", "@c[$a] = NR; end { emit @c, \"a\" }"]], [["count-similar", "-g", "a"], ["cat", "-n"]],
    [["fill-empty"], ["rename", "b,bb"]], [["put", "begin { @n = 0 } @n += 1; $n = @n"]],
    # --seed: every file must restart the sequence, as the same command without -I on that file alone does
    "seed:" , "seed:", "seed:",
]
SEEDED = [[["put", "$r = urandint(1, 1000)"]], [["shuffle"]], [["bootstrap"]], [["sample", "-k", "2", "-g", "a"]], [["filter", "urand() < 0.6"]],
          [["cat", "-n"], ["put", "$r = urand32()"]]]
FMTS = [("dkvp", [], "dkvp"), ("csv", ["--icsv", "--ocsv"], "csv"), ("json", ["--json"], "json"), ("csv", ["--icsv", "--ojson"], "csv"),
        ("dkvp", ["--ojson"], "dkvp"), ("tsv", ["--tsv"], "tsv")]


def compress(kind, data):
    if kind == "gz":
        return gzip.compress(data, mtime=0)
    if kind == "z":
        return zlib.compress(data)
    return data


def decompress(kind, data):
    if kind == "gz":
        return gzip.decompress(data)
    if kind == "z":
        return zlib.decompress(data)
    return data


def build_case(r, tier):
    fmt, flags, ext = r.choice(FMTS)
    chain = r.choice(CHAINS)
    if chain == "seed:":
        chain = r.choice(SEEDED)
        flags = ["--seed", str(r.randint(1, 99999))] + flags
    nfiles = r.choice([1, 1, 2, 2, 3])
    kind = r.choice(["crash_enum", "crash_enum", "crash_enum", "crash_steps", "fault", "fault", "fault", "refused", "clean"])
    fk = r.choice(["mktemp", "temp_write", "temp_write", "temp_close", "rename", "chmod", "malformed", "dsl", "dsl_direct", "out_schema", "missing", "read_err",
                   "remove_after_fail"]) if kind == "fault" else None
    files, names, comp, modes = {}, [], [], []
    for k in range(nfiles):
        n = r.choice([0, 1, 3, 6, 15, 40]) if k > 0 or nfiles > 1 else r.choice([1, 3, 6, 15, 40, 120])
        recs = c17.rect_records(r, n)
        text = c17.fmt_text(fmt, recs) if recs or fmt not in ("json",) else "[\n]\n"
        ck = r.choice(["", "", "", "gz", "z"])
        if fk in ("temp_write", "temp_close") and r.chance(0.5):
            ck = r.choice(["gz", "z"])  # the recompressor holds small outputs back until its Close: the write fails there
        sub = r.choice(["", "", "sub/"])
        nm = "%sf%d.%s%s" % (sub, k, ext, "." + ck if ck else "")
        mode = r.choice([0o644, 0o600, 0o755, 0o640, 0o664])
        files[nm] = [compress(ck, text.encode()).decode("latin1"), mode]
        names.append(nm)
        comp.append(ck)
        modes.append(mode)
    args = ["mlr", "-I"] + flags + gen.chain_args(chain) + names
    case = {"kind": kind, "args": args, "files": files, "names": names, "comp": comp, "modes": modes, "flags": flags,
            "chain": chain, "cseed": r.randint(1, 1 << 40), "knobs": r.choice([None, None, {"bufw": 16}, {"bufw": 64}, {"bufw": 16, "bufr": 16}]),
            "batch": r.choice([None, 1, 2, 3])}
    if kind == "fault":
        j = r.below(nfiles)
        case["fault_kind"] = fk
        case["fault_file"] = j
        faults = []
        if fk == "mktemp":
            faults = [{"kind": "op_err", "op": "openw", "path": "mlr-in-place-", "nth": j, "errno": r.choice(["EACCES", "ENOSPC", "EMFILE"])}]
        elif fk == "temp_write":
            faults = [{"kind": "write_err", "path": "mlr-in-place-", "at": r.choice([0, 1, 5, 40, 300]), "errno": r.choice(["ENOSPC", "EIO"]), "torn": r.chance(0.5)}]
        elif fk == "temp_close":
            faults = [{"kind": "op_err", "op": "close", "path": "mlr-in-place-", "nth": j, "errno": "EIO"}]
        elif fk == "rename":
            faults = [{"kind": "op_err", "op": "rename", "path": "mlr-in-place-", "nth": j, "errno": r.choice(["EXDEV", "EACCES", "ENOSPC"])}]
        elif fk == "chmod":
            faults = [{"kind": "op_err", "op": "chmod", "path": names[j], "nth": 0, "errno": "EPERM"}]
        elif fk == "read_err":
            faults = [{"kind": "read_err", "path": names[j], "at": r.choice([0, 3, 20, 100]), "errno": "EIO"}]
        elif fk == "remove_after_fail":
            faults = [{"kind": "op_err", "op": "rename", "path": "mlr-in-place-", "nth": j, "errno": "EXDEV"},
                      {"kind": "op_err", "op": "remove", "path": "mlr-in-place-", "nth": 0, "errno": "EPERM"}]
            case["temp_may_remain"] = True
        elif fk == "malformed":
            if fmt not in ("csv", "json", "tsv") or comp[j]:
                return None
            raw = files[names[j]][0]
            nrec = max(1, raw.count("\n") - 1)
            t = c17.malform(r, fmt, raw, r.below(nrec))
            if t is None or t == raw:
                return None
            files[names[j]][0] = t
            if any(seg and seg[0] == "head" for seg in chain):
                # R1: an early-exit chain may legitimately stop reading before the malformed record; the result is then the
                # transformation of the file as it would be without the damage (accepted as a second reference)
                case["alt_files"] = {names[j]: raw}
        elif fk in ("dsl", "dsl_direct"):
            prog = "NR == 2 { $* = 3 }" if fk == "dsl" else "NR == 2 { $c = asserting_int(\"x\") }"
            args = ["mlr", "-I"] + flags + ["put", prog] + names
            case["args"] = args
            case["chain"] = [["put", prog]]
        elif fk == "out_schema":
            if "--ocsv" not in flags and "--tsv" not in flags:
                return None
            prog = "NR == 2 { unset $b; $zz = 1 }"
            case["args"] = ["mlr", "-I"] + flags + ["put", prog] + names
            case["chain"] = [["put", prog]]
        elif fk == "missing":
            del files[names[j]]
        case["faults"] = faults
    if kind == "refused":
        which = r.choice(["prepipe", "prepipex", "bz2", "url"])
        case["refused"] = which
        if which == "prepipe":
            case["args"] = ["mlr", "-I", "--prepipe", "cat"] + flags + gen.chain_args(chain) + names
        elif which == "prepipex":
            case["args"] = ["mlr", "-I", "--prepipex", "cat"] + flags + gen.chain_args(chain) + names
        elif which == "bz2":
            import bz2
            j = r.below(nfiles)
            raw = decompress(comp[j], files[names[j]][0].encode("latin1"))
            newn = "f%d.%s.bz2" % (j, ext)
            del files[names[j]]
            files[newn] = [bz2.compress(raw).decode("latin1"), modes[j]]
            names[j] = newn
            comp[j] = "bz2"
            case["args"] = ["mlr", "-I"] + flags + gen.chain_args(chain) + names
            case["refused_from"] = j
        else:
            j = r.below(nfiles)
            names[j] = r.choice(["http://example.invalid/x.csv", "https://example.invalid/y", "file:///etc/hostname"])
            case["args"] = ["mlr", "-I"] + flags + gen.chain_args(chain) + names
            case["refused_from"] = j
    return case


def file_kwargs(case):
    return {"files": {k: (v[0].encode("latin1"), v[1]) for k, v in case["files"].items()}}


def with_batch(args, batch):
    if not batch:
        return list(args)
    return [args[0], "--records-per-batch", str(batch)] + list(args[1:])


def reference(case, chk, vd):
    """Per named file: expected plain bytes after transformation (staged run without -I on that file alone)."""
    refs = []
    for i, nm in enumerate(case["names"]):
        if nm not in case["files"]:
            refs.append(None)
            continue
        args = ["mlr"] + [a for a in case["args"][2:] if a not in case["names"]] + [nm]
        if case["args"][1] != "-I":
            raise ValueError("expected -I at argv[1]")
        r = chk.pool.run1(mkspec(args, mode="staged", **file_kwargs(case)))
        vd.runs.append(r)
        if r.status != "exit":
            refs.append(None)
        elif r.code != 0:
            refs.append(("fail", r.code))
        else:
            refs.append(("ok", r.stdout))
    case_alt = case.get("alt_files") or {}
    alts = {}
    for nm, raw in case_alt.items():
        if nm not in case["files"]:
            continue
        args = ["mlr"] + [a for a in case["args"][2:] if a not in case["names"]] + [nm]
        fk = file_kwargs(case)
        fk["files"] = dict(fk["files"])
        fk["files"][nm] = (raw.encode("latin1"), case["files"][nm][1])
        r = chk.pool.run1(mkspec(args, mode="staged", **fk))
        vd.runs.append(r)
        if r.status == "exit" and r.code == 0:
            alts[nm] = r.stdout
    vd.alts = alts
    return refs


def check_files(case, refs, r, vd, cfg, final):
    """File-state invariant at the instant of the snapshot."""
    names = case["names"]
    states = []
    for i, nm in enumerate(names):
        orig = case["files"].get(nm)
        if orig is None:
            states.append("missing")
            continue
        got = r.files.get(nm)
        if got is None:
            vd.add("file-vanished", name=nm, config=cfg, status=r.status)
            return None
        data, mode = got
        ob = orig[0].encode("latin1")
        st = None
        if data == ob:
            st = "orig"
        ref = refs[i]
        if ref and ref[0] == "ok":
            ck = case["comp"][i]
            plain = None
            if ck in ("gz", "z"):
                try:
                    plain = decompress(ck, data)
                except Exception as e:  # invalid / truncated stream
                    plain = None
            else:
                plain = data
            if plain is not None and plain == ref[1]:
                st = "new" if st is None else "same"
        alt = getattr(vd, "alts", {}).get(nm)
        if st is None and alt is not None and not case["comp"][i] and data == alt:
            st = "new"
            vd.notes["early_exit_before_malformed_record"] = vd.notes.get("early_exit_before_malformed_record", 0) + 1
        if st is None:
            vd.add("file-half-written", name=nm, config=cfg, status=r.status, got_len=len(data), orig_len=len(ob),
                   ref_len=len(refs[i][1]) if refs[i] and refs[i][0] == "ok" else None, head=data[:80].decode("latin1"),
                   crash=r.raw["outcome"].get("crash_why"), fired=r.fired[:2])
            return None
        states.append(st)
    # monotone: transformed files form a prefix, untouched files a suffix
    seen_orig = False
    for i, st in enumerate(states):
        if st == "orig":
            seen_orig = True
        elif st == "new" and seen_orig:
            vd.add("later-file-touched", states=states, config=cfg, status=r.status)
            return None
    return states


def evaluate(case, chk):
    vd = Verdict()
    pool = chk.pool
    kw = file_kwargs(case)
    args = with_batch(case["args"], case.get("batch"))
    knobs = case.get("knobs")
    kind = case["kind"]
    refs = reference(case, chk, vd)
    rng = Rng(case["cseed"], "c19")
    if case.get("plans") is None:
        pilot = pool.run1(mkspec(args, sched={"policy": "rtb", "seed": 1}, knobs=knobs, snapshot=True, log_ops=True, **kw))
        vd.runs.append(pilot)
        judge_final(case, refs, pilot, vd, {"pilot": True})
        plans = []
        if kind == "crash_enum":
            nops = pilot.op_count
            ks = list(range(nops + 1))
            if len(ks) > 60:
                ks = sorted(set(ks[:12] + ks[-12:] + rng.sample(ks, 36)))
            for k in ks:
                plans.append({"crash_op": k, "sched": {"policy": "rtb", "seed": 1}})
                plans.append({"crash_op": k, "sched": random_sched(rng, pilot.goroutines)})
        elif kind == "crash_steps":
            for _ in range(24):
                plans.append({"crash_step": rng.randint(1, max(2, pilot.steps)), "sched": random_sched(rng, pilot.goroutines)})
        else:
            for _ in range(5):
                plans.append({"sched": random_sched(rng, pilot.goroutines)})
        case["plans"] = plans
    for plan in case["plans"]:
        sc = dict(plan["sched"])
        if plan.get("crash_step"):
            sc["crash_step"] = plan["crash_step"]
        r = pool.run1(mkspec(args, sched=sc, knobs=knobs, snapshot=True, crash_op=plan.get("crash_op"),
                             faults=case.get("faults"), rtseed=plan.get("rtseed", 1), **kw))
        vd.runs.append(r)
        cfg = json.loads(json.dumps(plan))
        if r.status == "crash":
            vd.notes["crash_points_hit"] = vd.notes.get("crash_points_hit", 0) + 1
            why = r.raw["outcome"].get("crash_why", "")
            if "rename" in why:
                vd.notes["crash_before_rename"] = vd.notes.get("crash_before_rename", 0) + 1
            if "chmod" in why:
                vd.notes["crash_between_rename_and_chmod"] = vd.notes.get("crash_between_rename_and_chmod", 0) + 1
            check_files(case, refs, r, vd, cfg, final=False)
        else:
            judge_final(case, refs, r, vd, cfg)
        if len(vd.violations) >= 2:
            break
    return vd


def judge_final(case, refs, r, vd, cfg):
    if r.status in ("deadlock", "livelock"):
        vd.add("hang", status=r.status, config=cfg, blocked=r.blocked[:12], fired=r.fired[:2])
        return
    if r.status == "panic":
        vd.add("panic", config=cfg, text=r.panic_text[-1000:])
        return
    if r.status != "exit":
        return
    states = check_files(case, refs, r, vd, cfg, final=True)
    if states is None:
        return
    temps = [n for n in r.files if n.rsplit("/", 1)[-1].startswith("mlr-in-place-")]
    if r.code == 0:
        # success: everything transformed, modes preserved, no temp
        for i, st in enumerate(states):
            if st == "orig":
                vd.add("exit0-but-not-transformed", name=case["names"][i], config=cfg, fired=r.fired[:2])
                return
            if st == "missing":
                vd.add("exit0-with-missing-file", name=case["names"][i], config=cfg)
                return
        for i, nm in enumerate(case["names"]):
            if nm in r.files and r.files[nm][1] != case["files"][nm][1]:
                vd.add("mode-not-preserved", name=nm, want=oct(case["files"][nm][1]), got=oct(r.files[nm][1]), config=cfg)
                return
        if temps:
            vd.add("temp-left-after-success", temps=temps, config=cfg)
        extra = [n for n in r.files if n not in case["files"] and n not in temps]
        if extra:
            vd.add("unexpected-files", names=extra[:5], config=cfg)
    else:
        if b"mlr" not in r.stderr:
            vd.add("no-diagnostic", code=r.code, config=cfg, stderr=r.stderr[:200].decode("utf-8", "replace"))
        if temps and r.exit_normal and not case.get("temp_may_remain"):
            vd.add("temp-left-after-reported-failure", temps=temps, config=cfg, fired=r.fired[:2], stderr=r.stderr[:200].decode("utf-8", "replace"))
        if case["kind"] == "refused":
            # "refused before anything is modified": no named file may have changed, wherever in the list the
            # refusable input stands
            for i, st in enumerate(states):
                if st == "new":
                    vd.add("refused-input-modified", name=case["names"][i], config=cfg)
                    return
    if case["kind"] == "refused" and r.code == 0:
        vd.add("refused-input-accepted", config=cfg, refused=case.get("refused"))


def cases(rng, tier):
    i = 0
    while True:
        i += 1
        c = build_case(rng.fork("c19", i), tier)
        if c is not None:
            yield c


def sample_of(case, verdict):
    s = {"kind": case["kind"], "args": case["args"], "file_modes": {k: oct(v[1]) for k, v in case["files"].items()},
         "fault_kind": case.get("fault_kind"), "faults": case.get("faults"), "knobs": case.get("knobs")}
    s["plans"] = (case.get("plans") or [])[:4]
    s["runs"] = [{"status": r.status, "code": r.code, "crash": r.raw["outcome"].get("crash_why"), "fired": r.fired[:1], "steps": r.steps}
                 for r in verdict.runs if r.spec.get("mode") != "staged"][:8]
    return s


def known_match(case, klass, detail, known):
    for kf in known:
        if kf.get("status") == "known" and kf.get("class") == klass and kf.get("predicate") == case.get("fault_kind"):
            return kf["id"]
    return None


def shrink_candidates(case):
    plans = case.get("plans") or []
    if len(plans) > 1:
        for i in range(len(plans)):
            c = dict(case)
            c["plans"] = [plans[i]]
            yield c
    if len(plans) == 1 and plans[0].get("sched", {}).get("policy") != "rtb":
        c = dict(case)
        p2 = dict(plans[0])
        p2["sched"] = {"policy": "rtb", "seed": 1}
        c["plans"] = [p2]
        yield c
