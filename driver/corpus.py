"""Corpus replay: the regression cases under <repo>/test/cases as *workload*.

Their golden expout files are never used in a verdict (rule R10); `selftest`
uses them to validate the harness only.
"""
import os
import re
import shlex

from build import repo_root

AUX = {"help", "version", "regtest", "repl", "lecat", "termcvt", "hex", "unhex", "mcp", "summary"}

# non-deterministic or environment-dependent functions/verbs (R4, R5)
NONDET = re.compile(
    r"\b(system|exec|os_type|hostname|version|urand\w*|shuffle|bootstrap|sample|systime\w*|sysntime|uptime|"
    r"repl|regtest|lecat|termcvt|gmt2localtime|localtime2gmt|strf\w*_local|strp\w*_local|sec2date|"
    r"localtime\w*|\w+_local)\b")
ENVDEP = re.compile(r"(--norc|mlrrc|\.mlrrc|--load|--mload|--time|--tz|\bTZ\b|ENV\b|--prepipe|--prepipex|--from.* -n\b)")
PIPED = re.compile(r"(\|\s*[\"$@(a-zA-Z]|\btee\s+(-[a-z]\s+)*-p\b|--prepipe)")
SIDEFX = re.compile(r"(\btee\b|\bsplit\b|>|\|\s*\")")


def split_cmd(cmd):
    """POSIX word splitting; returns None if the command needs a shell."""
    try:
        lex = shlex.shlex(cmd, posix=True, punctuation_chars=True)
        lex.whitespace_split = True
        toks = list(lex)
    except ValueError:
        return None
    if any(t in ("|", "||", "&&", ";", ">", "<", ">>", "&", "(", ")", "|&", ";;") for t in toks):
        return None
    return toks


class CorpusCase:
    __slots__ = ("path", "rel", "args", "should_fail", "expout", "side_effects", "seeded", "inplace")

    def __init__(self, path, rel, args, should_fail, side_effects):
        self.path = path
        self.rel = rel
        self.args = args
        self.should_fail = should_fail
        self.side_effects = side_effects


def load(include_side_effects=False):
    repo = repo_root()
    top = os.path.join(repo, "test", "cases")
    cases = []
    stats = {"total": 0, "eligible": 0}
    for root, dirs, files in os.walk(top):
        dirs.sort()
        if "cmd" not in files:
            continue
        stats["total"] += 1
        try:
            cmd = open(os.path.join(root, "cmd"), errors="replace").read().strip()
        except OSError:
            continue
        rel = os.path.relpath(root, repo)
        if "\n" in cmd:
            continue
        cmd = cmd.replace("${CASEDIR}", rel).replace("$CASEDIR", rel)
        if not cmd.startswith("mlr "):
            continue
        if any(os.path.exists(os.path.join(root, f)) for f in ("env", "precmd", "postcmd", "scripts")):
            continue
        extra = ""
        mf = os.path.join(root, "mlr")
        if os.path.exists(mf):
            extra = open(mf, errors="replace").read()
        text = cmd + "\n" + extra
        if NONDET.search(text) or ENVDEP.search(cmd):
            continue
        if re.search(r"(^| )-I( |$)", cmd):
            continue
        if PIPED.search(extra) or re.search(r"\|\s*\\?[\"$@(]", cmd) or re.search(r"\btee\s+(-[a-z]\s+)*-p\b", cmd):
            continue  # output piped to a real child process: uncontrolled timing
        side = bool(SIDEFX.search(text))
        if side and not include_side_effects:
            continue
        toks = split_cmd(cmd)
        if not toks or len(toks) < 2:
            continue
        if toks[1] in AUX or toks[1] == "-s" or toks[1].startswith("--version") or toks[1] in ("--usage", "--help", "-h"):
            continue
        # referenced files with load/include semantics that read the environment
        cases.append(CorpusCase(root, rel, toks, os.path.exists(os.path.join(root, "should-fail")), side))
    stats["eligible"] = len(cases)
    cases.sort(key=lambda c: c.rel)
    return cases, stats


def links():
    return {"test": os.path.join(repo_root(), "test")}
