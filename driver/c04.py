"""C04 - output independent of batching and scheduling; termination; --seed; tail -f."""
import json

import corpus
import gen
from checklib import Verdict
from simlib import Rng, mkspec, random_sched, starve_each, sha12

PROPERTY = "C04"
LEVEL = "exploration"
BUDGET = {"quick": 75, "thorough": 1500}
MIN_CASES = {"quick": 2600}  # see checklib.Check: quick goes on to this many cases on a loaded machine (up to 3x its budget)
RULE = ("cases: corpus commands (test/cases, as workload only), generated verb chains, early-exit/termination chains, "
        "tail -f arrival histories, --seed chains; each case = one staged reference run + N simulated runs of the real "
        "entrypoint.Main() under seeded schedules (policies random/rtb/rr/pct/starve-each/favor-each, select tie-breaks), "
        "batch sizes, bufio sizes, read chunking, map-iteration seeds. A run is non-trivial if the scheduler had >=2 "
        "candidates at some step; distinct = distinct (case hash, trace hash) pairs among non-trivial simulated runs.")
ASSUMPTIONS = [
    "the staged reference executor (reader, then each verb to completion, then writer; same verb/reader/writer code) defines the chain's meaning",
    "strict serialisation at yield granularity: interleavings finer than one synchronisation operation are not explored",
    "go1.26.8 runtime with patched select order / map seed; kernel tmpfs for file contents",
    "sampling, not enumeration: a clean run is evidence, not proof",
]
COMPONENTS = {
    "real": ["pkg/entrypoint.Main and everything below it (CLI parsing, readers, verbs, DSL, writers)", "Go channels/select/goroutines", "tmpfs"],
    "simulated": ["goroutine scheduling choice", "select tie-breaks", "map iteration seed", "stdin arrival", "read/write sizes", "os.Exit", "fds 0/1/2"],
    "stubbed": ["cmd/mlr/main.go (GOMAXPROCS, profiling flags)"],
}

BATCHES = [1, 1, 2, 3, 5, 8, None]


def perturb_args(args, cfg):
    extra = []
    if cfg.get("batch"):
        extra += ["--records-per-batch", str(cfg["batch"])]
    extra += cfg.get("flags", [])
    return [args[0]] + extra + list(args[1:])


def gen_configs(rng, goroutines, n, sweep=False, batches=None):
    cfgs = []
    for i in range(n):
        c = {"batch": rng.choice(batches or BATCHES), "sched": random_sched(rng, goroutines), "rtseed": rng.randint(1, 1 << 30)}
        if rng.chance(0.4):
            c["knobs"] = {"bufr": rng.choice([16, 17, 64, 4096]), "bufw": rng.choice([16, 64, 4096])}
        if rng.chance(0.35):
            c["chunk"] = {"max": rng.choice([1, 2, 3, 7, 64, 1000]), "mode": rng.choice(["fixed", "random"]), "seed": rng.randint(1, 1 << 30)}
        fl = []
        if rng.chance(0.15):
            fl.append(rng.choice(["--hash-records", "--no-hash-records"]))
        if rng.chance(0.1):
            fl += ["--nr-progress-mod", str(rng.choice([1, 2, 7]))]
        if rng.chance(0.1):
            fl.append(rng.choice(["--fflush", "--no-fflush"]))
        if fl:
            c["flags"] = fl
        cfgs.append(c)
    if sweep and goroutines:
        for sc in starve_each(goroutines, rng.randint(1, 1 << 30)):
            cfgs.append({"batch": rng.choice([1, 2, 3]), "sched": sc, "rtseed": 1})
    return cfgs


def base_kwargs(case):
    kw = {}
    if case.get("files"):
        kw["files"] = {k: (v.encode("latin1") if isinstance(v, str) else v) for k, v in case["files"].items()}
    if case.get("links"):
        kw["links"] = case["links"]
    if case.get("stdin") is not None:
        kw["stdin"] = case["stdin"].encode("latin1")
    if case.get("env"):
        kw["env"] = case["env"]
    return kw


def evaluate(case, chk):
    if case.get("kind") == "tail":
        return evaluate_tail(case, chk)
    vd = Verdict()
    pool = chk.pool
    kw = base_kwargs(case)
    ref = None
    if not case.get("no_ref"):
        ref = pool.run1(mkspec(case["args"], mode="staged", snapshot=True, **kw))
        vd.runs.append(ref)
        if ref.status == "unsupported":
            vd.skipped = "ref:" + ref.note
            return vd
        if ref.guard_hits:
            vd.skipped = "write-guard"
            return vd
        if ref.status != "exit":
            # the staged executor did not come to an end with this code (it runs the reader to completion on its own): no
            # reference to compare with, but the real pipeline must still terminate, without a crash, under every schedule
            vd.notes["ref_unavailable:" + ref.status] = 1
            ref = None
    if case.get("configs") is None:
        pilot = pool.run1(mkspec(case["args"], sched={"policy": "rtb", "seed": 1}, snapshot=True, **kw))
        vd.runs.append(pilot)
        rng = Rng(case.get("cseed", 1), "cfg")
        case["configs"] = gen_configs(rng, pilot.goroutines, case.get("nconf", 6), sweep=case.get("sweep", False),
                                      batches=case.get("batches"))
        if case.get("force_preempt"):
            for c in case["configs"]:
                c["sched"]["preempt"] = rng.choice(case["force_preempt"])
        for k, fl in enumerate(case.get("force_flags") or []):
            if k < len(case["configs"]):
                case["configs"][k]["flags"] = list(fl)
        judge(case, vd, ref, pilot, {"pilot": True})
    first_ok = None
    for cfg in case["configs"]:
        args2 = perturb_args(case["args"], cfg)
        r = pool.run1(mkspec(args2, sched=cfg["sched"], knobs=cfg.get("knobs"), chunk=cfg.get("chunk"),
                             rtseed=cfg.get("rtseed", 1), snapshot=True, **kw))
        vd.runs.append(r)
        if ref is None:
            # self-consistency only (used when the staged model cannot express the case)
            if r.status in ("deadlock", "livelock", "panic"):
                judge(case, vd, None, r, cfg)
            elif first_ok is None:
                first_ok = r
            else:
                judge(case, vd, first_ok, r, cfg)
        else:
            judge(case, vd, ref, r, cfg)
        if len(vd.violations) >= 2:
            break
    return vd


def has_early_exit(args):
    """R1(a): chains with an unkeyed head, or a seqgen that is not first, stop consuming input early; a fault
    beyond what they must consume need not be reported."""
    segs, cur = [], []
    for a in args[1:]:
        if a == "then":
            segs.append(cur)
            cur = []
        else:
            cur.append(a)
    segs.append(cur)
    for i, sg in enumerate(segs):
        if "head" in sg and "-g" not in sg[sg.index("head"):]:
            return True
        if i > 0 and sg[:1] == ["seqgen"]:
            return True
    return False


def uses_stream_context(args):
    """R1(b): with an unkeyed early-exit verb in the chain the reader stops at a schedule-dependent point, so the
    stream context attached to records emitted at end of stream by non-streaming verbs, and seen by end blocks
    (NR, FNR, FILENAME, FILENUM), is not a function of the input alone."""
    import re
    return any(re.search(r"\b(NR|FNR|FILENAME|FILENUM)\b", a) for a in args[1:])


def judge(case, vd, ref, r, cfg):
    cfgs = json.loads(json.dumps(cfg))
    if r.status in ("deadlock", "livelock"):
        vd.add("no-termination", status=r.status, config=cfgs, blocked=r.blocked[:16], steps=r.steps)
        return
    if r.status == "panic":
        vd.add("panic", config=cfgs, text=r.panic_text[-1500:])
        return
    if r.map_races:
        # two live goroutines on one package-level map, at least one writing, not both under a mutex: in the real,
        # parallel binary the Go runtime ends the process with "fatal error: concurrent map ..." when they meet
        vd.add("unsynchronised-shared-map", config=cfgs, maps=r.map_races[:4])
        return
    if r.guard_hits:
        vd.skipped = "write-guard"
        return
    if ref is None:
        return
    if ref.code == 0:
        if r.code != 0:
            vd.add("fails-under-perturbation", config=cfgs, code=r.code, stderr=r.stderr[:400].decode("utf-8", "replace"))
        elif (r.stdout != ref.stdout or r.files != ref.files) and has_early_exit(case["args"]) and uses_stream_context(case["args"]):
            vd.notes["R1b_relaxed"] = vd.notes.get("R1b_relaxed", 0) + 1
        elif r.stdout != ref.stdout:
            vd.add("stdout-differs", config=cfgs, ref_len=len(ref.stdout), got_len=len(r.stdout),
                   ref_sha=sha12(ref.stdout), got_sha=sha12(r.stdout), first_diff=first_diff(ref.stdout, r.stdout))
        elif r.files != ref.files:
            names = sorted(set(r.files) ^ set(ref.files)) + sorted(k for k in r.files if k in ref.files and r.files[k] != ref.files[k])
            vd.add("files-differ", config=cfgs, names=names[:10])
    else:
        if r.code == 0 and has_early_exit(case["args"]):
            vd.notes["R1a_relaxed"] = vd.notes.get("R1a_relaxed", 0) + 1
        elif r.code == 0:
            vd.add("succeeds-under-perturbation", config=cfgs, ref_code=ref.code, ref_stderr=ref.stderr[:300].decode("utf-8", "replace"))


def first_diff(a, b):
    n = min(len(a), len(b))
    i = 0
    while i < n and a[i] == b[i]:
        i += 1
    return {"at": i, "ref": a[max(0, i - 30):i + 40].decode("utf-8", "replace"), "got": b[max(0, i - 30):i + 40].decode("utf-8", "replace")}


# ---------------------------------------------------------------- tail -f

def count_out_records(fmt, data):
    """Complete output records on stdout, by a per-format rule (R6) - not by comparison with another run."""
    text = data.decode("utf-8", "replace")
    lines = text.split("\n")
    complete = lines[:-1]
    if fmt in ("dkvp", "nidx", "jsonl"):
        return len([l for l in complete if l != ""])
    if fmt in ("csv", "tsv", "csvlite"):
        return max(0, len([l for l in complete if l != ""]) - 1)
    if fmt == "markdown":
        return max(0, len(complete) - 2)
    if fmt == "json":
        # closing braces of top-level records: lines equal to "}" or "}," at depth 1
        # a record is complete once its closing brace at depth 1 is out (the separating comma and newline are
        # written in front of the *next* record); single-line records: "{ ... }" possibly followed by ","
        return len([l for l in lines if l in ("}", "},")]) + len([l for l in lines if l.startswith("{ ") and l.rstrip(",").endswith("}")])
    if fmt == "xtab":
        # stanzas are separated by blank lines; a stanza is complete when the next one has begun or at EOF
        stanzas = [s for s in text.split("\n\n") if s.strip() != ""]
        return len(stanzas) if stanzas else 0
    raise ValueError(fmt)


def evaluate_tail(case, chk):
    vd = Verdict()
    pool = chk.pool
    stdin = case["stdin"].encode("latin1")
    args = case["args"]
    ref = pool.run1(mkspec(args, mode="staged", stdin=stdin))
    vd.runs.append(ref)
    if ref.status != "exit" or ref.code != 0:
        vd.skipped = "ref:" + ref.status
        return vd
    for cfg in case["configs"]:
        r = pool.run1(mkspec(args, stdin=stdin, arrivals=case["arrivals"], sched=cfg["sched"], knobs=cfg.get("knobs"),
                             chunk=cfg.get("chunk"), rtseed=cfg.get("rtseed", 1), tail=True))
        vd.runs.append(r)
        vd.notes["stdin_deliveries"] = vd.notes.get("stdin_deliveries", 0) + len(r.deliveries)
        cfgs = json.loads(json.dumps(cfg))
        if r.status in ("deadlock", "livelock"):
            vd.add("no-termination", status=r.status, config=cfgs, blocked=r.blocked[:16])
            continue
        if r.status == "panic":
            vd.add("panic", config=cfgs, text=r.panic_text[-1500:])
            continue
        if r.code != 0:
            vd.add("fails-under-perturbation", config=cfgs, code=r.code, stderr=r.stderr[:300].decode("utf-8", "replace"))
            continue
        if r.stdout != ref.stdout:
            vd.add("stdout-differs", config=cfgs, first_diff=first_diff(ref.stdout, r.stdout))
            continue
        # progress: at each quiescent instant (all goroutines blocked, reader waiting for more input), the
        # number of complete output records equals the number of complete input records delivered so far
        hdr = case.get("in_header_lines", 0)
        for d in r.deliveries:
            delivered = stdin[:d["delivered"]]
            passes = case.get("passes")
            nlines = max(0, delivered.count(b"\n") - hdr)
            nin = nlines if not passes else sum(1 for x in passes[:nlines] if x)
            # JSON-lines input: a record is complete at its closing brace, before the line terminator arrives
            nbr = delivered.count(b"}")
            nin_max = (nbr if not passes else sum(1 for x in passes[:nbr] if x)) if case.get("ifmt") == "jsonl" else nin
            visible = r.stdout[:d["stdout"]]
            nout = count_out_records(case["ofmt"], visible)
            if not (nin <= nout <= max(nin, nin_max)):
                vd.add("tail-f-lag", config=cfgs, delivered_bytes=d["delivered"], input_records=nin, output_records=nout,
                       stdout_bytes=d["stdout"])
                break
    return vd


# ---------------------------------------------------------------- case streams

def corpus_cases(rng, tier, include_side=True):
    cases, stats = corpus.load(include_side_effects=include_side)
    order = list(range(len(cases)))
    rng.shuffle(order)
    for i in order:
        c = cases[i]
        yield {"kind": "corpus", "name": c.rel, "args": c.args, "links": corpus.links(), "cseed": rng.randint(1, 1 << 40),
               "nconf": 5 if tier == "quick" else 8, "sweep": tier != "quick" and rng.chance(0.25)}


def interleave(*gens):
    gens = [iter(g) for g in gens]
    while gens:
        for g in list(gens):
            try:
                yield next(g)
            except StopIteration:
                gens.remove(g)


def failing_cases(rng, tier):
    """Runs that cannot succeed, for a reason that lies in the command line or the input bytes themselves (no injected
    fault): "a run that fails under one setting fails under all" and terminates under every schedule."""
    import c17
    kinds = ["missing", "isdir", "malformed", "gz_trunc", "gz_garbage", "dsl", "dsl_end", "out_schema", "dsl_parse", "two_missing", "malformed", "gz_trunc"]
    i = 0
    while True:
        i += 1
        r = rng.fork("failing", i)
        try:
            c = c17.build_case(r, kinds[(i - 1) % len(kinds)], tier)
        except Exception:
            c = None
        if c is None or c.get("faults") or c.get("children"):
            continue
        yield {"kind": "failing", "fault_kind": c.get("fault_kind"), "args": c["args"], "files": c["files"], "cseed": r.randint(1, 1 << 40),
               "nconf": 4 if tier == "quick" else 7, "sweep": tier != "quick" and r.chance(0.3)}


def cases(rng, tier):
    import os
    only = os.environ.get("VERIF_ONLY")
    if only == "corpus":
        return corpus_cases(rng.fork("corpus"), tier)
    streams = [corpus_cases(rng.fork("corpus"), tier)]
    streams.append(gen.chain_cases(rng.fork("chains"), tier))
    streams.append(gen.termination_cases(rng.fork("term"), tier))
    streams.append(gen.tail_cases(rng.fork("tail"), tier))
    streams.append(gen.seed_cases(rng.fork("seed"), tier))
    streams.append(gen.hash_cases(rng.fork("hash"), tier))
    streams.append(gen.race_cases(rng.fork("race"), tier))
    streams.append(gen.alias_cases(rng.fork("alias"), tier))
    streams.append(failing_cases(rng.fork("failing"), tier))
    if only:
        streams = [st for st, nm in zip(streams, ["corpus", "chains", "term", "tail", "seed", "hash", "race", "alias", "failing"]) if nm in only.split(",")]
    return interleave(*streams)


def sample_of(case, verdict):
    s = {"kind": case.get("kind"), "args": case.get("args"), "name": case.get("name")}
    if case.get("configs"):
        s["configs"] = case["configs"][:3]
    if case.get("arrivals"):
        s["arrivals"] = case["arrivals"][:8]
    s["runs"] = [{"policy": (r.spec.get("sched") or {}).get("policy", r.spec.get("mode")), "status": r.status, "code": r.code,
                  "steps": r.steps, "trace": r.trace_hash} for r in verdict.runs[:6]]
    return s


def known_match(case, klass, detail, known):
    for kf in known:
        if kf.get("status") != "known" or kf.get("class") != klass:
            continue
        pred = kf.get("predicate")
        a = " ".join(case.get("args", []))
        if pred == "seed-multi-rng-stage" and case.get("rng_stages", 0) >= 2:
            return kf["id"]
        if pred == "redirect-to-stdout" and any(("> stdout" in x or ">stdout" in x or ">> stdout" in x) for x in case.get("args", [])):
            return kf["id"]
        if pred == "env-tz-assigned-in-chain" and sum(1 for x in case.get("args", []) if x == "then") >= 1 and any("ENV[\"TZ\"] =" in x for x in case.get("args", [])) \
                and any(f in a for f in ("sec2localtime", "sec2localdate", "localtime2sec", "strftime_local", "strptime_local", "localtime2gmt", "gmt2localtime")):
            return kf["id"]
        if pred == "json-pass-comments" and "--pass-comments" in a and any(f in case.get("args", []) for f in (
                "--ijson", "--json", "--ijsonl", "--jsonl", "--j2c", "--j2t", "--j2d", "--j2n", "--j2x", "--j2p", "--j2m", "--j2l", "--l2c", "--l2j", "--l2d", "--l2p", "-i")):
            return kf["id"]
    return None


def shrink_candidates(case):
    # fewer configs first, then fewer args pieces for generated chains
    cfgs = case.get("configs") or []
    if len(cfgs) > 1:
        for i in range(len(cfgs)):
            c = dict(case)
            c["configs"] = [cfgs[i]]
            yield c
    if len(cfgs) == 1:
        cfg = cfgs[0]
        for key in ("chunk", "knobs", "flags"):
            if key in cfg:
                c = dict(case)
                c2 = dict(cfg)
                del c2[key]
                c["configs"] = [c2]
                yield c
        sc = cfg.get("sched", {})
        for simpler in ({"policy": "rtb", "seed": 1}, {"policy": "first", "seed": 1}):
            if sc.get("policy") != simpler["policy"] or len(sc) > 2:
                c = dict(case)
                c2 = dict(cfg)
                c2["sched"] = simpler
                c["configs"] = [c2]
                yield c
    for cand in gen.shrink_input(case):
        yield cand
